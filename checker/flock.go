package main

import (
	"os"
	"syscall"
)

func flock(f *os.File)   { syscall.Flock(int(f.Fd()), syscall.LOCK_EX) }
func funlock(f *os.File) { syscall.Flock(int(f.Fd()), syscall.LOCK_UN) }
