module coredhcp.verif/checker

go 1.22.0
