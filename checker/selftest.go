package main

import (
	"context"
	"fmt"
	"os"
	"os/exec"
	"strconv"
	"strings"
	"sync"
	"time"
)

// selftest runs the machinery's own checks (DESIGN.md §7).
func selftest(which string, args []string) int {
	switch which {
	case "preservation":
		return selftestPreservation()
	case "determinism":
		return selftestDeterminism(args)
	case "race":
		return selftestRace()
	case "fsnotify":
		return selftestFsnotify()
	}
	die(2, "unknown selftest %s", which)
	return 2
}

// selftestPreservation runs the repository's own tests on the instrumented copy (shims in passthrough mode).
func selftestPreservation() int {
	ensureTools()
	scratch := fmt.Sprintf("/dev/shm/verif-pres-%d", os.Getpid())
	os.RemoveAll(scratch)
	defer os.RemoveAll(scratch)
	cmd := exec.Command(verifDir+"/bin/simbuild", "-repo", repoDir, "-sim", verifDir+"/sim", "-out", scratch)
	cmd.Env = goEnv()
	if out, err := cmd.CombinedOutput(); err != nil {
		fmt.Printf("selftest-preservation: simbuild failed: %v\n%s\n", err, out)
		return 2
	}
	cmd = exec.Command("go", "test", "-tags", "verif", "-vet=off", "-count=1", "./server/...", "./plugins/...", "./handler/...", "./logger/...", "./config/...")
	cmd.Dir = scratch
	cmd.Env = goEnv()
	out, err := cmd.CombinedOutput()
	fmt.Print(string(out))
	if err != nil {
		fmt.Printf("selftest-preservation: FAILED: the repository's tests do not pass on the instrumented copy: %v\n", err)
		return 1
	}
	fmt.Println("selftest-preservation: ok (repository tests pass on the instrumented copy, shims in passthrough mode)")
	return 0
}

// selftestDeterminism runs the same seeds twice at several GOMAXPROCS values, in many processes, and compares full outputs.
func selftestDeterminism(args []string) int {
	props := []string{}
	for id := range specs {
		props = append(props, id)
	}
	n := 40
	for i := 0; i < len(args); i++ {
		if args[i] == "--props" {
			i++
			props = strings.Split(args[i], ",")
		}
		if args[i] == "--n" {
			i++
			n, _ = strconv.Atoi(args[i])
		}
	}
	bins := []buildInfo{ensureBuild(false)}
	type key struct {
		prop string
		idx  int
	}
	var mu sync.Mutex
	outs := map[key][]string{}
	var wg sync.WaitGroup
	sem := make(chan struct{}, 16)
	bad := 0
	for _, prop := range props {
		sp := specs[prop]
		if sp == nil {
			continue
		}
		for idx := 0; idx < n; idx++ {
			for rep, procs := range []string{"1", "4", "16", "2"} {
				wg.Add(1)
				sem <- struct{}{}
				go func(prop string, sp *spec, idx, rep int, procs string) {
					defer wg.Done()
					defer func() { <-sem }()
					scen := ""
					if len(sp.Scenarios) > 0 {
						scen = sp.Scenarios[idx%len(sp.Scenarios)]
					}
					a := []string{"-engine", sp.Engine, "-prop", prop, "-seed", "424242", "-first", strconv.Itoa(idx * 3), "-runs", "3", "-full", "-trace"}
					if sp.Engine != "allocsim" {
						a = []string{"-engine", sp.Engine, "-prop", prop, "-seed", "424242", "-first", strconv.Itoa(idx), "-runs", "1", "-full", "-trace"}
					}
					if scen != "" {
						a = append(a, "-scenario", scen)
					}
					ctx, cancel := context.WithTimeout(context.Background(), 300*time.Second)
					defer cancel()
					cmd := exec.CommandContext(ctx, bins[0].Simrun, a...)
					cmd.Env = append(os.Environ(), "GOMAXPROCS="+procs)
					out, _ := cmd.Output()
					mu.Lock()
					outs[key{prop, idx}] = append(outs[key{prop, idx}], string(out))
					mu.Unlock()
				}(prop, sp, idx, rep, procs)
			}
		}
	}
	wg.Wait()
	total := 0
	for k, v := range outs {
		total++
		for i := 1; i < len(v); i++ {
			if v[i] != v[0] || v[0] == "" {
				bad++
				fmt.Printf("selftest-determinism: DIVERGENCE property=%s index=%d (output %d differs from output 0)\n", k.prop, k.idx, i)
				a, b := strings.Split(v[0], "\n"), strings.Split(v[i], "\n")
				for j := 0; j < len(a) && j < len(b); j++ {
					if a[j] != b[j] {
						x, y := a[j], b[j]
						p := 0
						for p < len(x) && p < len(y) && x[p] == y[p] {
							p++
						}
						lo := p - 200
						if lo < 0 {
							lo = 0
						}
						fmt.Printf("  first difference at line %d col %d:\n   A: %s\n   B: %s\n", j, p, clip(x[lo:], 500), clip(y[lo:], 500))
						break
					}
				}
				break
			}
		}
	}
	fmt.Printf("selftest-determinism: %d (property,seed) cells x 4 executions at GOMAXPROCS 1/4/16/2, %d divergent\n", total, bad)
	if bad > 0 {
		return 1
	}
	return 0
}

func clip(s string, n int) string {
	if len(s) > n {
		return s[:n]
	}
	return s
}

// selftestRace validates the race-detector seam: a planted unsynchronised counter shared by two handler tasks must be
// reported on the -race build in a strictly serial schedule, and must not be reported when guarded by simrt.Mutex.
func selftestRace() int {
	bi := ensureBuild(true)
	count := func(scen string) (int, string) {
		cr := execSimrun(context.Background(), bi.Race, 120*time.Second, job{}, "-engine", "netsim", "-prop", "C16", "-scenario", scen, "-seed", "1", "-first", "0", "-runs", "1")
		n := 0
		if len(cr.runs) == 1 {
			for _, f := range cr.runs[0].Findings {
				if strings.HasPrefix(f.Class, "data-race/") {
					n++
				}
			}
		}
		msg := ""
		if cr.err != nil {
			msg = cr.err.Error()
			if strings.Contains(msg, "DATA RACE") {
				n++ // the planted race is in harness code by construction
			}
		}
		return n, msg
	}
	racy, m1 := count("racecheck-racy")
	locked, m2 := count("racecheck-locked")
	fmt.Printf("selftest-race: planted unsynchronised counter -> %d report(s); same counter under simrt.Mutex -> %d report(s)\n", racy, locked)
	if racy == 0 || locked != 0 {
		fmt.Printf("selftest-race: FAILED (%s | %s)\n", clip(m1, 300), clip(m2, 300))
		return 1
	}
	fmt.Println("selftest-race: ok (the baton carries no happens-before edge; the program's own locks do)")
	return 0
}

// selftestFsnotify calibrates the simulated file system's inotify/fsnotify model against the real library on tmpfs.
func selftestFsnotify() int {
	bi := ensureBuild(false)
	cmd := exec.Command(bi.Simrun, "-engine", "fscal")
	out, err := cmd.CombinedOutput()
	fmt.Print(string(out))
	if err != nil {
		fmt.Println("selftest-fsnotify: FAILED: the model and fsnotify v1.8.0 disagree (see MISMATCH lines)")
		return 1
	}
	fmt.Println("selftest-fsnotify: ok (every scripted update produces the same events and leaves the same watch list in the model and with the real library)")
	return 0
}
