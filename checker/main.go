// check is the entry point registered in MANIFEST.json.
//
//	check build                          instrument /repo's working tree and build simrun (cached by content hash)
//	check run <id> --tier quick|thorough run the seeded search for one property
//	check replay <file>                  re-execute a replay file in a fresh process
//	check selftest-determinism|selftest-preservation|selftest-race
//
// Exit status: 0 held (KNOWN-FINDING lines allowed), 1 violation (VIOLATION line), 2 machinery trouble.
package main

import (
	"bufio"
	"bytes"
	"context"
	"crypto/sha256"
	"encoding/hex"
	"encoding/json"
	"fmt"
	"io"
	"io/fs"
	"os"
	"os/exec"
	"path/filepath"
	"regexp"
	"sort"
	"strconv"
	"strings"
	"sync"
	"sync/atomic"
	"time"
)

var verifDir = "/verif"

var repoDir = "/repo"

type Finding struct {
	Property string `json:"property"`
	Class    string `json:"class"`
	Detail   string `json:"detail"`
}

type Run struct {
	Seed         uint64           `json:"seed"`
	Index        int              `json:"index"`
	Engine       string           `json:"engine"`
	Property     string           `json:"property"`
	Scenario     string           `json:"scenario,omitempty"`
	Desc         string           `json:"desc"`
	NonTrivial   bool             `json:"nontrivial"`
	Discarded    string           `json:"discarded,omitempty"`
	Steps        int64            `json:"steps"`
	Switches     int64            `json:"switches"`
	SwitchHash   uint64           `json:"switch_hash"`
	StateHash    uint64           `json:"state_hash"`
	SimNs        int64            `json:"sim_ns"`
	Incarnations int              `json:"incarnations,omitempty"`
	Datagrams    int              `json:"datagrams,omitempty"`
	Replies      int              `json:"replies,omitempty"`
	Faults       map[string]int64 `json:"faults,omitempty"`
	Probes       map[string]int64 `json:"probes,omitempty"`
	Findings     []Finding        `json:"findings,omitempty"`
	Notes        []Finding        `json:"notes,omitempty"`
	Unknown      bool             `json:"unknown,omitempty"`
	Sample       []string         `json:"sample,omitempty"`
	Tape         []uint32         `json:"tape,omitempty"`
	Overrun      int              `json:"overrun,omitempty"`
	Known        bool             `json:"known,omitempty"`
	FaultsOn     bool             `json:"faults_on,omitempty"`
	EndReason    string           `json:"end,omitempty"`
}

type ReplayFile struct {
	Property  string   `json:"property"`
	Engine    string   `json:"engine"`
	Scenario  string   `json:"scenario,omitempty"`
	Seed      uint64   `json:"seed"`
	Known     bool     `json:"known,omitempty"`
	Class     string   `json:"class"`
	Detail    string   `json:"detail"`
	TreeHash  string   `json:"tree_hash,omitempty"`
	Minimised bool     `json:"minimised"`
	Tape      []uint32 `json:"tape"`
	Trace     []string `json:"trace,omitempty"`
}

type Known struct {
	Property    string `json:"property"`
	Class       string `json:"class"`  // regexp on the violation class
	Detail      string `json:"detail"` // regexp on the detail (the specific input / history that fails)
	Status      string `json:"status"` // open | fixed
	Commit      string `json:"commit,omitempty"`
	Description string `json:"description"`
}

type KnownFile struct {
	Findings []Known `json:"findings"`
}

func die(code int, format string, a ...interface{}) {
	fmt.Fprintf(os.Stderr, "check: "+format+"\n", a...)
	os.Exit(code)
}

func goEnv() []string {
	env := os.Environ()
	env = append(env, "GOFLAGS=-mod=mod", "GOPROXY=off", "GOSUMDB=off", "GOTOOLCHAIN=local", "CGO_ENABLED=1")
	return env
}

// ---------------------------------------------------------------------------
// build

func hashTree() (string, error) {
	h := sha256.New()
	add := func(root string, skip func(rel string, d fs.DirEntry) bool) error {
		var files []string
		err := filepath.WalkDir(root, func(p string, d fs.DirEntry, err error) error {
			if err != nil {
				return err
			}
			rel, _ := filepath.Rel(root, p)
			if rel != "." && skip(rel, d) {
				if d.IsDir() {
					return filepath.SkipDir
				}
				return nil
			}
			if d.Type().IsRegular() {
				files = append(files, p)
			}
			return nil
		})
		if err != nil {
			return err
		}
		sort.Strings(files)
		for _, f := range files {
			b, err := os.ReadFile(f)
			if err != nil {
				return err
			}
			fmt.Fprintf(h, "%s %d\n", f, len(b))
			h.Write(b)
		}
		return nil
	}
	if err := add(repoDir, func(rel string, d fs.DirEntry) bool {
		top := strings.Split(rel, string(filepath.Separator))[0]
		return top == ".git" || top == "integ" || top == "cmds" || top == ".github"
	}); err != nil {
		return "", err
	}
	if err := add(filepath.Join(verifDir, "sim"), func(rel string, d fs.DirEntry) bool { return false }); err != nil {
		return "", err
	}
	if err := add(filepath.Join(verifDir, "simbuild"), func(rel string, d fs.DirEntry) bool { return false }); err != nil {
		return "", err
	}
	return hex.EncodeToString(h.Sum(nil))[:20], nil
}

type buildInfo struct {
	Hash   string
	Dir    string
	Simrun string
	Race   string
}

var buildMu sync.Mutex

func ensureTools() {
	sb := filepath.Join(verifDir, "bin", "simbuild")
	need := false
	st, err := os.Stat(sb)
	if err != nil {
		need = true
	} else {
		filepath.WalkDir(filepath.Join(verifDir, "simbuild"), func(p string, d fs.DirEntry, err error) error {
			if err == nil && d.Type().IsRegular() {
				if fi, e := d.Info(); e == nil && fi.ModTime().After(st.ModTime()) {
					need = true
				}
			}
			return nil
		})
	}
	if need {
		cmd := exec.Command("go", "build", "-o", sb, ".")
		cmd.Dir = filepath.Join(verifDir, "simbuild")
		cmd.Env = goEnv()
		out, err := cmd.CombinedOutput()
		if err != nil {
			die(2, "building simbuild failed: %v\n%s", err, out)
		}
	}
}

func ensureBuild(race bool) buildInfo {
	buildMu.Lock()
	defer buildMu.Unlock()
	ensureTools()
	hash, err := hashTree()
	if err != nil {
		die(2, "hashing the tree: %v", err)
	}
	dir := filepath.Join(verifDir, ".cache", "build-"+hash)
	bi := buildInfo{Hash: hash, Dir: dir, Simrun: filepath.Join(dir, "simrun"), Race: filepath.Join(dir, "simrun.race")}
	want := bi.Simrun
	if race {
		want = bi.Race
	}
	if _, err := os.Stat(want); err == nil {
		return bi
	}
	os.MkdirAll(dir, 0o755)
	// serialise builds across processes
	lock, err := os.OpenFile(filepath.Join(verifDir, ".cache", "build.lock"), os.O_CREATE|os.O_RDWR, 0o644)
	if err == nil {
		defer lock.Close()
		flock(lock)
		defer funlock(lock)
		if _, err := os.Stat(want); err == nil {
			return bi
		}
	}
	scratch := fmt.Sprintf("/dev/shm/verif-build-%s-%d", hash, os.Getpid())
	os.RemoveAll(scratch)
	defer os.RemoveAll(scratch)
	t0 := time.Now()
	cmd := exec.Command(filepath.Join(verifDir, "bin", "simbuild"), "-repo", repoDir, "-sim", filepath.Join(verifDir, "sim"), "-out", scratch)
	cmd.Env = goEnv()
	out, err := cmd.CombinedOutput()
	if err != nil {
		die(2, "simbuild failed (the tree cannot be instrumented): %v\n%s", err, out)
	}
	args := []string{"build", "-tags", "verif", "-o", want}
	if race {
		args = append(args, "-race")
	}
	args = append(args, "./zzverif/cmd/simrun")
	cmd = exec.Command("go", args...)
	cmd.Dir = scratch
	cmd.Env = goEnv()
	out, err = cmd.CombinedOutput()
	if err != nil {
		die(2, "building the instrumented tree failed: %v\n%s", err, out)
	}
	fmt.Fprintf(os.Stderr, "check: built %s in %.1fs (tree %s)\n", filepath.Base(want), time.Since(t0).Seconds(), hash)
	pruneCache(hash)
	return bi
}

func pruneCache(keep string) {
	ents, err := os.ReadDir(filepath.Join(verifDir, ".cache"))
	if err != nil {
		return
	}
	type e struct {
		name string
		t    time.Time
	}
	var l []e
	for _, d := range ents {
		if d.IsDir() && strings.HasPrefix(d.Name(), "build-") {
			fi, _ := d.Info()
			l = append(l, e{d.Name(), fi.ModTime()})
		}
	}
	sort.Slice(l, func(i, j int) bool { return l[i].t.After(l[j].t) })
	n := 0
	for _, x := range l {
		if x.name == "build-"+keep {
			continue
		}
		n++
		if n > 3 {
			os.RemoveAll(filepath.Join(verifDir, ".cache", x.name))
		}
	}
}

// ---------------------------------------------------------------------------
// property table

type spec struct {
	ID        string
	Engine    string
	Scenarios []string
	Quick     int // runs
	Thorough  int
	Batch     int  // runs per process (allocsim)
	RaceQuick bool // use the -race binary in the quick tier
	RaceThor  bool
	KnownPct  int // percentage of runs with known-finding triggers enabled
	TimeoutS  int
	Rule      string
	Assume    []string
}

var specs = map[string]*spec{}

func init() {
	alloc := func(id string) *spec {
		return &spec{ID: id, Engine: "allocsim", Quick: 12000, Thorough: 1500000, Batch: 250, RaceThor: false, KnownPct: 10, TimeoutS: 600,
			Rule: "one case = one history of 2..40 Allocate/Free calls from 1..6 simulated caller tasks on a freshly constructed real allocator; pool geometry, hints, free arguments, scheduler policy and every preemption are drawn from the run's tape; distinct = distinct (context-switch-sequence hash, model-state/result hash); non-trivial = at least 2 API calls",
			Assume: []string{"porcupine v1.3.0 decides linearizability of concurrent histories", "simbuild's statement-level yield insertion preserves semantics (repository tests pass on the instrumented copy)", "pools overlapping ::ffff:0:0/96 and IPv4-mapped IPv6 hints are not generated"}}
	}
	for _, id := range []string{"C04", "C05", "C06", "C07"} {
		specs[id] = alloc(id)
	}
	netAssume := []string{"simbuild's instrumentation preserves semantics (repository tests pass on the instrumented copy)", "sockets, clients, relays, clock and file system are simulated stubs (see components)", "process crash is simulated (tasks abandoned at a statement boundary, sqlite handles released); power loss is not", "an unbound listener always learns the receiving interface index (Linux with FlagInterface)"}
	net := func(id string, quick, thorough int, rule string, scen ...string) *spec {
		return &spec{ID: id, Engine: "netsim", Scenarios: scen, Quick: quick, Thorough: thorough, Batch: 1, KnownPct: 10, TimeoutS: 60, Rule: rule, Assume: netAssume}
	}
	specs["C02"] = net("C02", 2400, 200000, "one case = one simulated server lifetime: the real server (Serve, HandleMsg4, plugin chain with the range plugin, sqlite lease store) with 1..16 DHCPv4 clients sending 2..40 DISCOVER/REQUEST messages (bursts, duplicates, drops, delays), 0..6 crash/restarts on the same database, schedule and faults drawn from the run's tape; distinct = distinct (context-switch hash, reply-sequence hash); non-trivial = at least 2 datagrams delivered to the server", "lease4", "lease4", "lease4-crash", "lease4-sqlfault")
	specs["C11"] = net("C11", 2400, 200000, "one case = one simulated server lifetime under a drawn plugin chain with 2..30 DHCPv4 datagrams whose opcode, message type (incl. absent / malformed), xid, htype, hlen, flags, giaddr, ciaddr, options 82/61 and parameter list are drawn from the tape, some truncated, bit-flipped or with hlen>16, duplicated and reordered so that several are in flight together; every captured reply is attributed to the handler task that wrote it; distinct = distinct (context-switch hash, reply-sequence hash); non-trivial = at least 2 datagrams delivered", "wire4", "wire4", "wire4", "lease4-sqlfault")
	specs["C15"] = net("C15", 2400, 200000, "as C11 (scenario wire4): giaddr/ciaddr drawn from {zero, routable, link-local, broadcast, loopback, multicast} x broadcast flag x OFFER/ACK/NAK (NAK from a synthetic plugin) x yiaddr x bound/unbound listeners x receiving interface 2..4; the L2 frame built by the real sendEthernet is parsed independently", "wire4")
	specs["C13"] = net("C13", 2400, 200000, "one case = one configuration of 0..5 plugins per protocol (synthetic plugins registered through plugins.RegisterPlugin that pass / modify / replace / stop / stop-with-nil / fail setup / return a nil handler, v4-only, v6-only or dual, mixed with built-in pass-through plugins and unknown names), started through the real config.Load (YAML file) and LoadPlugins with 1..3 listeners per protocol sharing the handler slice, then 2..14 DHCPv4/DHCPv6 requests handled concurrently; the invocation log of every datagram (request/response object identity, order, stop) and the response that reaches the wire are compared with the configuration; distinct = distinct (context-switch hash, reply-sequence hash); non-trivial = at least 2 datagrams delivered or a rejected start-up", "chain")
	specs["C08"] = net("C08", 2400, 200000, "one case = one simulated server lifetime with the prefix plugin (pools of 2..64 blocks on both sides of bit 64) and 1..8 DHCPv6 clients (every DUID kind, equal-prefix DUIDs, direct or relayed 1..3 deep) sending 2..36 SOLICIT/REQUEST/RENEW/REBIND with 0..3 IA_PD x 0..3 IAPrefix hints (none, ::/0, length-only, held by self, held by another client, in-pool free, longer than the allocation size, out of pool), in bursts with duplicates, drops, stalls and up to 30 simulated minutes passing while handlers are in flight; distinct = distinct (context-switch hash, reply-sequence hash); non-trivial = at least 2 datagrams delivered", "pd6")
	specs["C09"] = net("C09", 2400, 200000, "as C08 (scenario pd6); the reference model remembers every prefix an answer delegated per client identifier and the promised lifetime; every run ends with an audit in which new clients ask until NoPrefixAvail, which must succeed exactly N minus blocks-ever-delegated times", "pd6")
	specs["C12"] = net("C12", 2400, 200000, "one case = one simulated server lifetime under a drawn DHCPv6 chain with 2..30 datagrams: message type 0..255 (biased to the defined ones), with/without client id and Rapid Commit, Server Identifier none/own/other, relay depth 0..4 with drawn per-layer link/peer addresses, Interface-ID, Remote-ID and extra options, wire-only shapes (outer Relay-Reply, Relay-Forward without relay-message option, truncation, bit flips), source global or link-local, listeners bound/unbound, receiving interface 2..4, duplicates in flight; every captured reply is attributed to its handler task; distinct = distinct (context-switch hash, reply-sequence hash); non-trivial = at least 2 datagrams delivered", "wire6")
	specs["C14"] = net("C14", 2400, 200000, "one case = one simulated server lifetime with server_id configured for both protocols (every accepted argument spelling) and 2..30 messages: all DHCPv6 client message types x Server Identifier {none, own, other: every DUID kind, other kind over the same address, equal prefix longer/shorter, different time/hwtype} x relay depth 0..4; DHCPv4 DISCOVER/REQUEST x siaddr {absent, zero, own, other} x option 54 {absent, zero, own, other}; distinct = distinct (context-switch hash, reply-sequence hash); non-trivial = at least 2 datagrams delivered", "serverid")
	specs["C10"] = net("C10", 2400, 200000, "one case = one simulated server lifetime with the file plugin for DHCPv4, DHCPv6 (or both, switch-gated) on an in-memory file system: a lease file drawn from the grammar (every MAC/IP spelling, comments, blank lines, duplicates, at most one malformation), 2..16 requests from listed and unlisted clients (DHCPv6 with/without IA_NA, MAC from DUID or relay peer address) interleaved, under autorefresh, with 1..6 operator updates performed syscall by syscall (in-place rewrite in 1..4 chunks with torn reads, append, rename-over, unlink+recreate, move-away) producing the inotify events of the calibrated model with coalescing, and injected read errors; the reference model is driven by what the plugin actually read; distinct = distinct (context-switch hash, reply-sequence hash); non-trivial = at least 2 datagrams delivered or a rejected start-up", "static")
	c16 := net("C16", 1200, 40000, "one case = one simulated server lifetime on the -race build with 2..40 datagrams in flight through lease4 (range+sqlite), pd6 (prefix), static (file with refresh events in flight) and mixed full chains, every scheduler policy, receive buffers recycled with maximal reuse and poisoned on Put; three monitors: the Go race detector (schedule-independent thanks to the annotation-free baton), porcupine over the datagram history against the sequential lease model, and the C02/C08/C09/C10 oracles under statement-level preemption; distinct = distinct (context-switch hash, reply-sequence hash); non-trivial = at least 2 datagrams delivered", "lease4", "pd6", "static", "mixed", "lease4", "pd6", "wire4", "wire6")
	c16.RaceQuick, c16.RaceThor, c16.KnownPct = true, true, 0
	c16.Assume = append(c16.Assume, "the Go race detector's bounded shadow history (a race whose first access was evicted is missed; mitigated by many short runs)", "porcupine v1.3.0")
	specs["C16"] = c16
	specs["C19"] = net("C19", 3000, 300000, "one case = one built-in plugin (optionally between valid neighbours) with an argument vector drawn from valid, boundary and invalid values of its argument kinds (addresses of both families incl. v4-mapped, CIDRs, durations incl. negative and huge, integers incl. negative/overflowing, URLs incl. >255 and >65535 bytes, domain names incl. over-long labels, MAC spellings, file names incl. missing, wrong arity), written as YAML and started through the real config.Load and LoadPlugins; rejected configurations are counted; accepted ones get 10..40 DHCPv4/DHCPv6 requests and every handler result is serialised, parsed back and compared; distinct = distinct (context-switch hash, reply-sequence hash); non-trivial = at least 2 datagrams delivered", "confswarm")
	specs["C17"] = net("C17", 2400, 200000, "one case = one simulated server lifetime with a drawn chain of option plugins around a lease plugin (ipv6only before range, lease_time before/after range, autoconfigure after an exhausted or absent range, nbp last, sleep anywhere; DHCPv6: prefix, dns, searchdomains, nbp, sleep) with accepted argument vectors (1..4 addresses, MTUs, durations, domain lists, 1..3 routes, URL schemes with/without params), and 3..24 DISCOVER/REQUEST (or DHCPv6) messages whose parameter request list / ORO is every subset of the relevant codes or absent, with/without option 116; every option of every reply on the wire is compared byte for byte with an independent encoding of the configured value; distinct = distinct (context-switch hash, reply-sequence hash); non-trivial = at least 2 datagrams delivered", "options")
	specs["C01"] = net("C01", 3200, 300000, "one case = one simulated server lifetime under a drawn chain (any subset, any order of the built-in plugins with valid arguments, DHCPv4 and/or DHCPv6, 2..4 listeners bound/unbound) with 5..300 datagrams from a structure-aware mutator: well-formed, truncated at drawn offsets, bit-flipped, boundary-valued bytes (length fields), extended, slices duplicated or swapped (duplicate / permuted options), wire-only option shapes (zero-length options, IAPrefix of length 0, IA_PD inside IA_PD / IAPrefix, >255-byte options, bad sub-option lengths), relay nesting 0..1200, raw garbage of 0..65535 bytes, replays of earlier datagrams, duplicates in flight; plus the lease, prefix, static-file, mixed and wire scenarios of the other properties; monitors: panic / fatal exit, per-handler yield budget, wedge, at most one reply per datagram, no lock held when idle, and a well-formed exchange completing after the hostile traffic stopped; distinct = distinct (context-switch hash, reply-sequence hash); non-trivial = at least 2 datagrams delivered", "hostile", "hostile", "hostile", "hostile", "pd6", "lease4-crash", "static", "mixed", "wire4", "wire6", "options", "serverid", "lease4-sqlfault", "static")
	specs["C01"].KnownPct = 0
	specs["C03"] = net("C03", 2400, 200000, "as C02 but crash-heavy: 1..6 crashes placed at statement boundaries (half inside the range plugin / start-up), plus restarts of the range plugin on copies of the database taken at drawn instants; the database is read back by an independent connection at every crash and at the end", "lease4-crash", "lease4-crash", "lease4", "lease4-sqlfault")
}

// ---------------------------------------------------------------------------
// running children

type job struct {
	first, runs int
	known       bool
	scenario    string
}

type childResult struct {
	runs   []Run
	err    error
	stderr string
	job    job
}

func runChild(ctx context.Context, bin string, sp *spec, seed uint64, j job, extra ...string) childResult {
	args := []string{"-engine", sp.Engine, "-prop", sp.ID, "-seed", strconv.FormatUint(seed, 10), "-first", strconv.Itoa(j.first), "-runs", strconv.Itoa(j.runs)}
	if j.known {
		args = append(args, "-known")
	}
	if j.scenario != "" {
		args = append(args, "-scenario", j.scenario)
	}
	args = append(args, extra...)
	return execSimrun(ctx, bin, time.Duration(sp.TimeoutS)*time.Second, j, args...)
}

func execSimrun(ctx context.Context, bin string, timeout time.Duration, j job, args ...string) childResult {
	cctx, cancel := context.WithTimeout(ctx, timeout)
	defer cancel()
	cmd := exec.CommandContext(cctx, bin, args...)
	raceLog := ""
	if strings.HasSuffix(bin, ".race") {
		raceSeq++
		raceLog = fmt.Sprintf("/dev/shm/verif-race-%d-%d", os.Getpid(), atomic.AddInt64(&raceCtr, 1))
	}
	cmd.Env = append(os.Environ(), "GORACE=halt_on_error=0 exitcode=0 history_size=4 log_path="+raceLog, "GOMAXPROCS=2")
	if raceLog == "" {
		cmd.Env = append(os.Environ(), "GOMAXPROCS=2")
	}
	var stdout, stderr bytes.Buffer
	cmd.Stdout = &stdout
	cmd.Stderr = &stderr
	err := cmd.Run()
	res := childResult{job: j, stderr: stderr.String()}
	sc := bufio.NewScanner(&stdout)
	sc.Buffer(make([]byte, 1<<20), 1<<28)
	for sc.Scan() {
		line := sc.Bytes()
		if len(line) == 0 || line[0] != '{' {
			continue
		}
		var r Run
		if e := json.Unmarshal(line, &r); e != nil {
			res.err = fmt.Errorf("bad summary line: %v", e)
			return res
		}
		res.runs = append(res.runs, r)
	}
	if raceLog != "" {
		files, _ := filepath.Glob(raceLog + ".*")
		var text strings.Builder
		for _, f := range files {
			b, _ := os.ReadFile(f)
			text.Write(b)
			os.Remove(f)
		}
		finds, mach := parseRaces(text.String())
		if len(res.runs) == 1 {
			res.runs[0].Findings = append(res.runs[0].Findings, finds...)
		} else if len(finds) > 0 {
			res.err = fmt.Errorf("race report from a process that printed %d summaries", len(res.runs))
		}
		if mach != "" {
			res.err = fmt.Errorf("the race detector reported a race inside the harness itself:\n%s", mach)
		}
	}
	if cctx.Err() == context.DeadlineExceeded {
		res.err = fmt.Errorf("timeout after %v", timeout)
		return res
	}
	if err != nil {
		res.err = fmt.Errorf("simrun %v: %v", args, err)
	}
	return res
}

var raceCtr, raceSeq int64

// parseRaces turns Go race detector reports into C16 findings. A report counts against coredhcp when at
// least one of the two conflicting accesses has a frame in repository code (not the harness under zzverif/).
func parseRaces(text string) (finds []Finding, machinery string) {
	if !strings.Contains(text, "WARNING: DATA RACE") {
		return nil, ""
	}
	for _, rep := range strings.Split(text, "==================") {
		if !strings.Contains(rep, "WARNING: DATA RACE") {
			continue
		}
		// the two access stacks are the first two blocks of frames
		lines := strings.Split(rep, "\n")
		var stacks [][]string
		var cur []string
		in := false
		for _, l := range lines {
			switch {
			case strings.HasPrefix(l, "Read at") || strings.HasPrefix(l, "Write at") || strings.HasPrefix(l, "Previous read") || strings.HasPrefix(l, "Previous write") ||
				strings.HasPrefix(l, "Atomic") || strings.HasPrefix(l, "Previous atomic"):
				in = true
				cur = nil
			case in && strings.TrimSpace(l) == "":
				stacks = append(stacks, cur)
				in = false
			case in && strings.HasPrefix(l, "  ") && !strings.HasPrefix(l, "      "):
				cur = append(cur, strings.TrimSpace(l))
			}
		}
		var keys []string
		repo := false
		for _, st := range stacks {
			k := ""
			for _, f := range st {
				if strings.Contains(f, "github.com/coredhcp/coredhcp/") && !strings.Contains(f, "/zzverif/") && !strings.Contains(f, "zz_verif_sim") && !strings.Contains(f, "SimListener") {
					k = strings.TrimSuffix(strings.TrimPrefix(f, "github.com/coredhcp/coredhcp/"), "()")
					repo = true
					break
				}
			}
			if k == "" && len(st) > 0 {
				k = strings.TrimSuffix(st[0], "()")
			}
			keys = append(keys, k)
		}
		sort.Strings(keys)
		if !repo {
			machinery += rep
			continue
		}
		finds = append(finds, Finding{Property: "C16", Class: "data-race/" + strings.Join(keys, "|"), Detail: strings.TrimSpace(rep)})
	}
	return finds, machinery
}

// ---------------------------------------------------------------------------
// known findings

func loadKnown() []Known {
	b, err := os.ReadFile(filepath.Join(verifDir, "known_findings.json"))
	if err != nil {
		return nil
	}
	var kf KnownFile
	if err := json.Unmarshal(b, &kf); err != nil {
		die(2, "known_findings.json: %v", err)
	}
	return kf.Findings
}

func matchKnown(kn []Known, f Finding) *Known {
	for i := range kn {
		k := &kn[i]
		if k.Status != "open" || k.Property != f.Property {
			continue
		}
		if ok, _ := regexp.MatchString(k.Class, f.Class); !ok {
			continue
		}
		if k.Detail != "" {
			if ok, _ := regexp.MatchString(k.Detail, f.Detail); !ok {
				continue
			}
		}
		return k
	}
	return nil
}

// ---------------------------------------------------------------------------
// shrinking

type shrinker struct {
	bin      string
	sp       *spec
	scenario string
	known    bool
	class    string
	prop     string
	execs    int
	deadline time.Time
	tmpdir   string
}

func (s *shrinker) try(tape []uint32) (*Run, bool) {
	if s.execs >= 400 || time.Now().After(s.deadline) {
		return nil, false
	}
	s.execs++
	rf := ReplayFile{Property: s.prop, Engine: s.sp.Engine, Scenario: s.scenario, Known: s.known, Tape: tape}
	p := filepath.Join(s.tmpdir, fmt.Sprintf("cand-%d.json", s.execs))
	b, _ := json.Marshal(rf)
	os.WriteFile(p, b, 0o644)
	defer os.Remove(p)
	cr := execSimrun(context.Background(), s.bin, 60*time.Second, job{}, "-engine", s.sp.Engine, "-replay", p, "-full")
	if len(cr.runs) != 1 {
		return nil, false
	}
	r := &cr.runs[0]
	for _, f := range r.Findings {
		if f.Property == s.prop && f.Class == s.class {
			return r, true
		}
	}
	return nil, false
}

func (s *shrinker) shrink(tape []uint32) ([]uint32, *Run) {
	best := append([]uint32(nil), tape...)
	var bestRun *Run
	accept := func(c []uint32) bool {
		if r, ok := s.try(c); ok {
			// use the normalised tape the run recorded
			best = append([]uint32(nil), r.Tape...)
			// trailing zeros are implicit
			for len(best) > 0 && best[len(best)-1] == 0 {
				best = best[:len(best)-1]
			}
			bestRun = r
			return true
		}
		return false
	}
	if !accept(best) {
		return tape, nil // not reproducible from its tape: the caller reports that as machinery trouble
	}
	// 1. truncate: shortest failing prefix (the rest of the tape reads as zeros)
	lo, hi := 0, len(best)
	for lo < hi {
		mid := (lo + hi) / 2
		if mid >= len(best) {
			break
		}
		if accept(best[:mid:mid]) {
			hi = len(best)
			if hi > mid {
				hi = mid
			}
		} else {
			lo = mid + 1
		}
	}
	// 2. zero chunks, 3. delete chunks
	for _, size := range []int{64, 16, 4, 1} {
		for i := 0; i+size <= len(best); {
			allZero := true
			for _, v := range best[i : i+size] {
				if v != 0 {
					allZero = false
				}
			}
			progressed := false
			if !allZero {
				c := append([]uint32(nil), best...)
				for k := i; k < i+size; k++ {
					c[k] = 0
				}
				if accept(c) {
					progressed = true
				}
			}
			if !progressed && i+size <= len(best) {
				c := append(append([]uint32(nil), best[:i]...), best[i+size:]...)
				if accept(c) {
					progressed = true
					continue // same i, tape got shorter
				}
			}
			i += size
			if s.execs >= 400 || time.Now().After(s.deadline) {
				return best, bestRun
			}
		}
	}
	// 4. lower single values
	for i := 0; i < len(best); i++ {
		for best[i] > 0 {
			c := append([]uint32(nil), best...)
			c[i] = best[i] / 2
			if !accept(c) {
				break
			}
			if i >= len(best) {
				break
			}
		}
		if s.execs >= 400 || time.Now().After(s.deadline) {
			break
		}
	}
	return best, bestRun
}

// ---------------------------------------------------------------------------
// check run

type evidence struct {
	PropertyID  string                 `json:"property_id"`
	Tier        string                 `json:"tier"`
	Seed        int64                  `json:"seed"`
	Level       string                 `json:"level"`
	Coverage    map[string]interface{} `json:"coverage"`
	Assumptions []string               `json:"assumptions"`
	WallS       float64                `json:"wall_s"`
	Violations  int                    `json:"violations"`
}

func cmdRun(id, tier string, seedOverride *uint64, runsOverride int) int {
	sp := specs[id]
	if sp == nil {
		die(2, "no check for property %s", id)
	}
	t0 := time.Now()
	var seed uint64 = 20261002
	if tier == "thorough" {
		seed = 77002026
	}
	if v := os.Getenv("VERIF_SEED"); v != "" {
		if n, err := strconv.ParseInt(v, 10, 64); err == nil {
			seed = uint64(n)
		} else if u, err := strconv.ParseUint(v, 10, 64); err == nil {
			seed = u
		}
	}
	if seedOverride != nil {
		seed = *seedOverride
	}
	fmt.Printf("check: property=%s tier=%s VERIF_SEED=%d\n", id, tier, seed)
	race := sp.RaceQuick
	total := sp.Quick
	if tier == "thorough" {
		race = sp.RaceThor
		total = sp.Thorough
	}
	if runsOverride > 0 {
		total = runsOverride
	}
	bi := ensureBuild(race)
	bin := bi.Simrun
	if race {
		bin = bi.Race
	}
	known := loadKnown()

	// jobs
	var jobs []job
	batch := sp.Batch
	if batch <= 0 {
		batch = 1
	}
	scen := sp.Scenarios
	if len(scen) == 0 {
		scen = []string{""}
	}
	for first, k := 0, 0; first < total; first, k = first+batch, k+1 {
		n := batch
		if first+n > total {
			n = total - first
		}
		j := job{first: first, runs: n, scenario: scen[k%len(scen)]}
		if sp.KnownPct > 0 && k%100 < sp.KnownPct {
			j.known = true
		}
		jobs = append(jobs, j)
	}
	// budget
	budget := 24 * time.Hour
	if v := os.Getenv("VERIF_BUDGET_S"); v != "" {
		if n, err := strconv.Atoi(v); err == nil {
			budget = time.Duration(n) * time.Second
		}
	}
	ctx, cancel := context.WithCancel(context.Background())
	defer cancel()
	workers := 16
	if v := os.Getenv("VERIF_WORKERS"); v != "" {
		if n, err := strconv.Atoi(v); err == nil && n > 0 {
			workers = n
		}
	}
	jobCh := make(chan job)
	resCh := make(chan childResult, workers)
	var wg sync.WaitGroup
	for w := 0; w < workers; w++ {
		wg.Add(1)
		go func() {
			defer wg.Done()
			for j := range jobCh {
				if j.first < 3*batch {
					resCh <- runChild(ctx, bin, sp, seed, j, "-full")
				} else {
					resCh <- runChild(ctx, bin, sp, seed, j)
				}
			}
		}()
	}
	go func() {
		for _, j := range jobs {
			if time.Since(t0) > budget || ctx.Err() != nil {
				break
			}
			jobCh <- j
		}
		close(jobCh)
		wg.Wait()
		close(resCh)
	}()

	agg := newAgg()
	var failing []Run
	var failJobs []job
	var machinery []string
	for cr := range resCh {
		if cr.err != nil {
			machinery = append(machinery, fmt.Sprintf("%v\n%s", cr.err, tail(cr.stderr, 2000)))
		}
		for _, r := range cr.runs {
			agg.add(&r)
			own := false
			for _, f := range r.Findings {
				if f.Property == id {
					own = true
				}
			}
			if own {
				if len(failing) < 200 {
					failing = append(failing, r)
					failJobs = append(failJobs, cr.job)
				}
			}
		}
	}
	// classify failures
	type group struct {
		f     Finding
		run   Run
		job   job
		count int
		kn    *Known
	}
	groups := map[string]*group{}
	var order []string
	for i, r := range failing {
		for _, f := range r.Findings {
			if f.Property != id {
				continue
			}
			kn := matchKnown(known, f)
			key := f.Class
			if kn != nil {
				key = "known:" + kn.Description
			}
			g := groups[key]
			if g == nil {
				g = &group{f: f, run: r, job: failJobs[i], kn: kn}
				groups[key] = g
				order = append(order, key)
			}
			g.count++
			break
		}
	}
	sort.Strings(order)
	violations := 0
	exit := 0
	os.MkdirAll(filepath.Join(verifDir, "replays"), 0o755)
	minimised := 0
	var sampleViol []interface{}
	for _, key := range order {
		g := groups[key]
		if g.kn != nil {
			fmt.Printf("KNOWN-FINDING: property=%s %s [class %s, %d run(s), e.g. seed %d]\n", id, g.kn.Description, g.f.Class, g.count, g.run.Seed)
			continue
		}
		violations += g.count
		exit = 1
		tape := g.run.Tape
		detail := g.f.Detail
		min := false
		var trace []string = g.run.Sample
		if minimised < 3 && len(tape) > 0 {
			minimised++
			tmp, _ := os.MkdirTemp("/dev/shm", "verif-shrink-")
			shrinkS := 120
			if v := os.Getenv("VERIF_SHRINK_S"); v != "" {
				if n, err := strconv.Atoi(v); err == nil {
					shrinkS = n
				}
			}
			sh := &shrinker{bin: bin, sp: sp, scenario: g.run.Scenario, known: g.run.Known, class: g.f.Class, prop: id, deadline: time.Now().Add(time.Duration(shrinkS) * time.Second), tmpdir: tmp}
			st, sr := sh.shrink(tape)
			os.RemoveAll(tmp)
			if sr == nil {
				machinery = append(machinery, fmt.Sprintf("violation class %s (seed %d) did not reproduce from its own tape: determinism defect in the machinery", g.f.Class, g.run.Seed))
			} else {
				tape = st
				min = true
				trace = sr.Sample
				for _, f := range sr.Findings {
					if f.Property == id && f.Class == g.f.Class {
						detail = f.Detail
					}
				}
				fmt.Printf("check: minimised class %s from %d to %d tape entries in %d executions\n", g.f.Class, len(g.run.Tape), len(st), sh.execs)
			}
		}
		rf := ReplayFile{Property: id, Engine: sp.Engine, Scenario: g.run.Scenario, Seed: g.run.Seed, Known: g.run.Known, Class: g.f.Class, Detail: detail, TreeHash: bi.Hash, Minimised: min, Tape: tape, Trace: trace}
		name := fmt.Sprintf("%s-%s-%d.json", id, sanitize(g.f.Class), g.run.Seed)
		path := filepath.Join(verifDir, "replays", name)
		b, _ := json.MarshalIndent(rf, "", " ")
		os.WriteFile(path, b, 0o644)
		fmt.Printf("VIOLATION property=%s replay=%s\n", id, path)
		fmt.Printf("  class=%s runs=%d seed=%d\n  %s\n", g.f.Class, g.count, g.run.Seed, firstLines(detail, 12))
		sampleViol = append(sampleViol, map[string]interface{}{"class": g.f.Class, "detail": firstLines(detail, 6), "replay": path, "trace": trace})
	}
	wall := time.Since(t0).Seconds()
	ev := agg.evidence(id, tier, seed, sp, wall, violations)
	if len(sampleViol) > 0 {
		ev.Coverage["violation_samples"] = sampleViol
	}
	ev.Coverage["tree_hash"] = bi.Hash
	ev.Coverage["binary"] = filepath.Base(bin)
	if len(machinery) > 0 {
		ev.Coverage["machinery_errors"] = machinery
	}
	writeEvidence(id, ev)
	fmt.Printf("check: property=%s runs=%d discarded=%d distinct_nontrivial=%d violations=%d wall=%.1fs\n", id, agg.n, agg.discarded, len(agg.distinct), violations, wall)
	if len(machinery) > 0 {
		for _, m := range machinery {
			fmt.Fprintf(os.Stderr, "check: MACHINERY: %s\n", m)
		}
		if exit == 0 {
			return 2
		}
	}
	if agg.n == 0 {
		fmt.Fprintln(os.Stderr, "check: no run completed")
		return 2
	}
	if exit == 0 && agg.nontrivial*4 < agg.n {
		// a batch in which the system under test did (almost) nothing decides nothing: machinery trouble, not a pass
		fmt.Fprintf(os.Stderr, "check: MACHINERY: vacuous exploration: only %d of %d runs exercised the server (datagrams handled, operations applied)\n", agg.nontrivial, agg.n)
		return 2
	}
	return exit
}

func sanitize(s string) string {
	re := regexp.MustCompile(`[^A-Za-z0-9_.-]+`)
	s = re.ReplaceAllString(s, "_")
	if len(s) > 60 {
		s = s[:60]
	}
	return s
}

// printable replaces control characters (hardware addresses, identifiers and hostnames are arbitrary bytes) so
// that the lines a check prints stay text: a NUL in the detail made grep treat the whole output as binary.
func printable(s string) string {
	b := []byte(s)
	for i, c := range b {
		if (c < 0x20 && c != '\n' && c != '\t') || c == 0x7f {
			b[i] = '.'
		}
	}
	return string(b)
}

func firstLines(s string, n int) string {
	s = printable(s)
	l := strings.Split(s, "\n")
	if len(l) > n {
		l = l[:n]
	}
	return strings.Join(l, "\n  ")
}

func tail(s string, n int) string {
	if len(s) > n {
		return s[len(s)-n:]
	}
	return s
}

type agg struct {
	n, discarded, nontrivial, unknown int
	distinct                          map[[2]uint64]bool
	switchHashes                      map[uint64]bool
	stateHashes                       map[uint64]bool
	faults                            map[string]int64
	probes                            map[string]int64
	probeRuns                         map[string]int64
	steps, switches, simNs            int64
	incarnations, datagrams, replies  int64
	samples                           []interface{}
	notes                             map[string]int
	scenarios                         map[string]int
	faultsOnRuns, knownRuns           int
	ends                              map[string]int
}

func newAgg() *agg {
	return &agg{distinct: map[[2]uint64]bool{}, switchHashes: map[uint64]bool{}, stateHashes: map[uint64]bool{}, faults: map[string]int64{}, probes: map[string]int64{},
		probeRuns: map[string]int64{}, notes: map[string]int{}, scenarios: map[string]int{}, ends: map[string]int{}}
}

func (a *agg) add(r *Run) {
	a.n++
	if r.Discarded != "" {
		a.discarded++
		a.notes["discarded: "+r.Discarded]++
	}
	if r.Unknown {
		a.unknown++
	}
	if r.NonTrivial && r.Discarded == "" {
		a.nontrivial++
		a.distinct[[2]uint64{r.SwitchHash, r.StateHash}] = true
	}
	a.switchHashes[r.SwitchHash] = true
	a.stateHashes[r.StateHash] = true
	for k, v := range r.Faults {
		a.faults[k] += v
	}
	for k, v := range r.Probes {
		a.probes[k] += v
		a.probeRuns[k]++
	}
	a.steps += r.Steps
	a.switches += r.Switches
	a.simNs += r.SimNs
	a.incarnations += int64(r.Incarnations)
	a.datagrams += int64(r.Datagrams)
	a.replies += int64(r.Replies)
	if r.Scenario != "" {
		a.scenarios[r.Scenario]++
	}
	if r.FaultsOn {
		a.faultsOnRuns++
	}
	if r.Known {
		a.knownRuns++
	}
	if r.EndReason != "" {
		a.ends[r.EndReason]++
	}
	for _, n := range r.Notes {
		a.notes[n.Property+"/"+n.Class]++
	}
	if len(a.samples) < 3 && len(r.Sample) > 0 && len(r.Findings) == 0 {
		s := r.Sample
		if len(s) > 60 {
			s = s[:60]
		}
		a.samples = append(a.samples, map[string]interface{}{"seed": r.Seed, "config": r.Desc, "scenario": r.Scenario, "history": s})
	}
}

func (a *agg) evidence(id, tier string, seed uint64, sp *spec, wall float64, violations int) *evidence {
	cov := map[string]interface{}{
		"evaluations":            a.n,
		"distinct_nontrivial":    len(a.distinct),
		"rule":                   sp.Rule,
		"samples":                a.samples,
		"nontrivial_runs":        a.nontrivial,
		"discarded_runs":         a.discarded,
		"distinct_interleavings": len(a.switchHashes),
		"distinct_states":        len(a.stateHashes),
		"scheduler_steps":        a.steps,
		"context_switches":       a.switches,
		"simulated_seconds":      float64(a.simNs) / 1e9,
		"runs_per_hour":          float64(a.n) / wall * 3600,
		"faults_fired":           a.faults,
		"probes":                 a.probes,
		"probe_runs":             a.probeRuns,
		"porcupine_unknown":      a.unknown,
		"runs_with_faults_on":    a.faultsOnRuns,
		"runs_with_known_finding_triggers": a.knownRuns,
		"notes_other_properties": a.notes,
		"end_reasons":            a.ends,
		"components": map[string]interface{}{
			"real":  realComponents(sp),
			"stubs": stubComponents(sp),
		},
	}
	if len(a.scenarios) > 0 {
		cov["scenarios"] = a.scenarios
	}
	if a.incarnations > 0 {
		cov["server_incarnations"] = a.incarnations
		cov["datagrams_delivered"] = a.datagrams
		cov["replies_captured"] = a.replies
	}
	if len(a.samples) == 0 {
		cov["samples"] = []interface{}{"(no clean run produced a sample)"}
	}
	s := int64(seed & 0x7fffffffffffffff)
	return &evidence{PropertyID: id, Tier: tier, Seed: s, Level: "exploration", Coverage: cov, Assumptions: sp.Assume, WallS: wall, Violations: violations}
}

func realComponents(sp *spec) []string {
	if sp.Engine == "allocsim" {
		return []string{"plugins/allocators/bitmap (both allocators, instrumented working tree)", "plugins/allocators (ipcalc, errors)", "bits-and-blooms/bitset"}
	}
	return []string{"server.Start/listen4/listen6/Serve/HandleMsg4/HandleMsg6/sendEthernet/Wait/Close (instrumented working tree)", "plugins.LoadPlugins and every configured plugin", "allocators", "config.Load", "logger", "insomniacslk/dhcp codec", "database/sql + mattn/go-sqlite3 (real file on tmpfs)", "gopacket"}
}

func stubComponents(sp *spec) []string {
	if sp.Engine == "allocsim" {
		return []string{"caller tasks and operation generator", "sync.Mutex -> simrt.Mutex (wraps the real mutex)", "goroutine scheduling (simrt cooperative scheduler)"}
	}
	return []string{"UDP sockets: server4.NewIPv4UDPConn/server6.NewIPv6UDPConn and ipv4/ipv6.PacketConn replaced by simulated sockets (bind, SO_BINDTODEVICE, SetControlMessage -> packet info on ReadFrom, JoinGroup recorded)", "DHCP clients, relays, mutator, operator", "clock (simrt)", "sync.Mutex/RWMutex/Pool -> simrt wrappers", "os.ReadFile + fsnotify -> in-memory file system and inotify model", "AF_PACKET socket syscalls", "interface table", "sqlite fault table (wrapping driver)"}
}

func writeEvidence(id string, ev *evidence) {
	os.MkdirAll(filepath.Join(verifDir, "evidence"), 0o755)
	b, err := json.MarshalIndent(ev, "", " ")
	if err != nil {
		die(2, "evidence: %v", err)
	}
	if err := os.WriteFile(filepath.Join(verifDir, "evidence", id+".json"), b, 0o644); err != nil {
		die(2, "evidence: %v", err)
	}
	if ev.Tier == "thorough" {
		// the next quick run rewrites evidence/<id>.json; the last thorough run stays readable next to it
		os.MkdirAll(filepath.Join(verifDir, "evidence_thorough"), 0o755)
		os.WriteFile(filepath.Join(verifDir, "evidence_thorough", id+".json"), b, 0o644)
	}
}

// ---------------------------------------------------------------------------
// replay

func cmdReplay(path string) int {
	b, err := os.ReadFile(path)
	if err != nil {
		die(2, "%v", err)
	}
	var rf ReplayFile
	if err := json.Unmarshal(b, &rf); err != nil {
		die(2, "%v", err)
	}
	sp := specs[rf.Property]
	if sp == nil {
		die(2, "unknown property %s", rf.Property)
	}
	race := sp.RaceQuick || sp.RaceThor
	bi := ensureBuild(race)
	bin := bi.Simrun
	if race {
		bin = bi.Race
	}
	rargs := []string{"-engine", rf.Engine, "-replay", path, "-full"}
	if !race {
		rargs = append(rargs, "-trace")
	}
	cr := execSimrun(context.Background(), bin, 120*time.Second, job{}, rargs...)
	if cr.err != nil && len(cr.runs) == 0 {
		die(2, "replay: %v\n%s", cr.err, tail(cr.stderr, 4000))
	}
	if len(cr.runs) != 1 {
		die(2, "replay produced %d summaries", len(cr.runs))
	}
	r := cr.runs[0]
	for _, s := range r.Sample {
		fmt.Println("  ", s)
	}
	if r.Overrun > 0 && rf.Minimised {
		// minimised tapes rely on implicit trailing zeros
	}
	known := loadKnown()
	for _, f := range r.Findings {
		if f.Property == rf.Property {
			if k := matchKnown(known, f); k != nil {
				fmt.Printf("KNOWN-FINDING: property=%s %s\n", f.Property, k.Description)
				return 0
			}
			fmt.Printf("VIOLATION property=%s replay=%s\n  class=%s\n  %s\n", f.Property, path, f.Class, firstLines(f.Detail, 20))
			if f.Class != rf.Class {
				fmt.Printf("  (recorded class was %s)\n", rf.Class)
			}
			return 1
		}
	}
	fmt.Printf("replay: no violation of %s reproduced (tree hash now %s, recorded %s)\n", rf.Property, bi.Hash, rf.TreeHash)
	return 0
}

// ---------------------------------------------------------------------------

func main() {
	if len(os.Args) < 2 {
		die(2, "usage: check build|run|replay|selftest-* ...")
	}
	if v := os.Getenv("VERIF_REPO"); v != "" {
		repoDir = v
	}
	if v := os.Getenv("VERIF_DIR"); v != "" {
		verifDir = v
	}
	switch os.Args[1] {
	case "build":
		ensureBuild(false)
		if len(os.Args) > 2 && os.Args[2] == "--race" {
			ensureBuild(true)
		}
	case "run":
		if len(os.Args) < 3 {
			die(2, "usage: check run <id> [--tier quick|thorough] [--seed N] [--runs N]")
		}
		id := os.Args[2]
		tier := os.Getenv("VERIF_TIER")
		if tier == "" {
			tier = "quick"
		}
		var seed *uint64
		runs := 0
		for i := 3; i < len(os.Args); i++ {
			switch os.Args[i] {
			case "--tier":
				i++
				tier = os.Args[i]
			case "--seed":
				i++
				u, err := strconv.ParseUint(os.Args[i], 10, 64)
				if err != nil {
					die(2, "bad seed")
				}
				seed = &u
			case "--runs":
				i++
				runs, _ = strconv.Atoi(os.Args[i])
			}
		}
		if tier != "quick" && tier != "thorough" {
			die(2, "tier must be quick or thorough")
		}
		os.Exit(cmdRun(id, tier, seed, runs))
	case "replay":
		if len(os.Args) < 3 {
			die(2, "usage: check replay <file>")
		}
		os.Exit(cmdReplay(os.Args[2]))
	default:
		if strings.HasPrefix(os.Args[1], "selftest-") {
			os.Exit(selftest(os.Args[1][len("selftest-"):], os.Args[2:]))
		}
		die(2, "unknown command %s", os.Args[1])
	}
}

var _ = io.Discard
