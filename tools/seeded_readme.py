#!/usr/bin/env python3
# Regenerates /verif/seeded/README.md from the meta.json files written by tools/seed_eval.sh.
import json,glob,os,re
rows=[]
for d in sorted(glob.glob('/verif/seeded/*/')):
    mp=os.path.join(d,'meta.json')
    if not os.path.exists(mp): continue
    m=json.load(open(mp))
    classes=[]
    for l in m.get('check_output',[]):
        mm=re.search(r'class=(\S+)',l)
        if mm: classes.append(mm.group(1))
    rows.append((os.path.basename(d.rstrip('/')),m.get('property','?'),m.get('title',m.get('what_it_breaks',''))[:110].replace('|','/'),m.get('needs_to_manifest','')[:160].replace('|','/').replace('\n',' '),
                 'yes' if m.get('confirmed_in_scratch_worktree') else 'NO', ' '.join(m.get('checks_run',[])), 'caught' if m.get('caught') else 'MISSED', ', '.join(dict.fromkeys(classes))[:200], m.get('note','')))
out=["# Seeded changes (written by sub-agents that saw only the property text)","",
"Each directory holds `patch.diff` (against /repo HEAD at the time), the agent's demonstration test and `meta.json`",
"(what it breaks, what it needs in order to manifest, my confirmation in a scratch worktree: suite passes with the patch,",
"demo passes on the clean tree and fails with the patch, and the output of the owning check run against /repo with the patch applied).",
"Regenerate with `tools/seeded_readme.py`; re-evaluate one with `tools/seed_eval.sh <PROP> <k> [checks...]`.","",
"| id | property | change | needs to manifest | confirmed | checks run | result | violation classes | note |","|---|---|---|---|---|---|---|---|---|"]
for r in rows: out.append('| '+' | '.join(r)+' |')
n=len(rows); c=sum(1 for r in rows if r[6]=='caught')
out+=["",f"{c} of {n} caught by the quick tier of the owning check."]
open('/verif/seeded/README.md','w').write('\n'.join(out)+'\n')
print(f"{c}/{n} caught")
