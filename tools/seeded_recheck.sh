#!/bin/bash
# Re-runs the owning checks against every kept seeded change (no scratch-worktree confirmation: that was done when the
# change was recorded) and prints caught / MISSED per change. /repo must be clean; it is restored after every change.
export GOFLAGS=-mod=mod GOPROXY=off GOSUMDB=off GOTOOLCHAIN=local
cd /repo && git diff --quiet || { echo "/repo not clean"; exit 2; }
n=0; missed=0
for d in /verif/seeded/*/; do
  id=$(basename $d)
  [ -f $d/patch.diff ] || continue
  checks=$(python3 -c "import json;print(' '.join(json.load(open('$d/meta.json')).get('checks_run',[])))")
  cd /repo && git apply $d/patch.diff 2>/dev/null || { echo "$id: patch does not apply"; continue; }
  verdict=MISSED
  for c in $checks; do
    if (cd /verif && VERIF_SHRINK_S=1 ./check run $c --tier quick 2>&1 | grep -a -q "^VIOLATION"); then verdict="caught($c)"; break; fi
  done
  cd /repo && git checkout -- . && git clean -fdq
  n=$((n+1)); [ "$verdict" = MISSED ] && missed=$((missed+1))
  echo "$id: $verdict"
done
echo "RECHECK-DONE $n changes, $missed missed"
