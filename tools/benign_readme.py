#!/usr/bin/env python3
# Regenerates /verif/benign/README.md from the meta.json files written by tools/benign_eval.sh.
import json,glob,os,re
rows=[]
for d in sorted(glob.glob('/verif/benign/*/')):
    mp=os.path.join(d,'meta.json')
    if not os.path.exists(mp): continue
    m=json.load(open(mp))
    classes=[]
    for l in m.get('check_output',[]):
        mm=re.search(r'class=(\S+)',l)
        if mm: classes.append(mm.group(1))
    rows.append((os.path.basename(d.rstrip('/')),m.get('property','?'),(m.get('title','') or '')[:120].replace('|','/'),(m.get('what_changes','') or '')[:200].replace('|','/').replace('\n',' '),
                 ' '.join(m.get('checks_run',[])),'ALARM' if m.get('alarm') else 'silent',', '.join(dict.fromkeys(classes))[:160],m.get('note','')))
out=["# Changes that keep the property (written by sub-agents that saw only the property text)","",
"Each directory holds `patch.diff`, the agent's `meta.json` (what changes, why the property still holds, plus the checks run",
"against /repo with the patch applied and their output) and usually a demonstration test. An ALARM is either a false alarm of",
"the machinery (to be corrected) or a change that breaks a *different* property than the one its author was shown (see note).",
"Regenerate with `tools/benign_readme.py`; re-evaluate one with `tools/benign_eval.sh <PROP> <k>` (BENIGN_SRC=/verif/benign/<PROP>-b<k>).","",
"| id | property | change | what is different | checks run | result | classes | note |","|---|---|---|---|---|---|---|---|"]
for r in rows: out.append('| '+' | '.join(r)+' |')
n=len(rows); a=sum(1 for r in rows if r[5]=='ALARM')
out+=["",f"{n-a} of {n} silent, {a} with alarms."]
open('/verif/benign/README.md','w').write('\n'.join(out)+'\n')
print(f"{n-a}/{n} silent")
