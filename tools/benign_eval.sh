#!/bin/bash
# usage: BENIGN_SRC=<dir with patch.diff, meta.json[, demo*.go]> tools/benign_eval.sh <PROP> <k>
# A change that keeps the property (written by a sub-agent that saw only the property text): confirms that it builds
# and passes the suite in a scratch worktree, applies it to /repo, runs every check whose code it touches, restores
# /repo. Any VIOLATION is a false alarm of the machinery (or the change is not benign after all: to be analysed).
# Writes /verif/benign/<PROP>-b<k>/{patch.diff,meta.json}.
set -u
export GOFLAGS=-mod=mod GOPROXY=off GOSUMDB=off GOTOOLCHAIN=local
P=$1; K=$2
SRC=${BENIGN_SRC:-/tmp/$P-workb/benign-$K}
[ -f $SRC/patch.diff ] || { echo "no such change $SRC"; exit 2; }
WT=/tmp/wt-beval-$P-$K
git -C /repo worktree remove --force $WT 2>/dev/null
git -C /repo worktree add -q $WT HEAD || exit 2
cd $WT
git apply $SRC/patch.diff || { echo "patch does not apply"; cd /; git -C /repo worktree remove --force $WT; exit 2; }
go build ./... > /tmp/beval-$P-$K-build.log 2>&1; BUILD=$?
go test -vet=off -count=1 ./... > /tmp/beval-$P-$K-suite.log 2>&1; SUITE=$?
cd /; git -C /repo worktree remove --force $WT
echo "confirm: patched build=$BUILD suite=$SUITE"
CHECKS="$P"
F=$(grep '^+++ b/' $SRC/patch.diff | sed 's/^+++ b\///')
for f in $F; do
  case $f in
    plugins/allocators/*) CHECKS="$CHECKS C04 C05 C06 C07 C02 C03 C08 C09";;
    plugins/range/*) CHECKS="$CHECKS C02 C03 C16 C01 C11";;
    plugins/prefix/*) CHECKS="$CHECKS C08 C09 C16 C01";;
    plugins/file/*) CHECKS="$CHECKS C10 C16 C01 C19";;
    server/*) CHECKS="$CHECKS C11 C12 C13 C15 C01 C16";;
    plugins/plugin.go|config/*) CHECKS="$CHECKS C13 C19 C01";;
    plugins/serverid/*) CHECKS="$CHECKS C14 C19 C01";;
    plugins/*) CHECKS="$CHECKS C17 C19 C14 C01";;
  esac
done
CHECKS=$(echo $CHECKS | tr ' ' '\n' | awk '!s[$0]++' | tr '\n' ' ')
cd /repo && git diff --quiet || { echo "/repo not clean"; exit 2; }
git apply $SRC/patch.diff || exit 2
OUT=""
for C in $CHECKS; do
  R=$(cd /verif && VERIF_SHRINK_S=8 ./check run $C --tier quick 2>&1 | grep -a -E "^VIOLATION|class=|check: property=.*runs=|MACHINERY|KNOWN|^  [a-zA-Z]" | cut -c1-400)
  OUT="$OUT
[$C] $R"
done
git checkout -- . && git clean -fdq
echo "$OUT"
D=/verif/benign/$P-b$K; mkdir -p $D; cp $SRC/patch.diff $D/; ls $SRC | grep -E '^demo.*\.go$' | while read d; do cp $SRC/$d $D/; done
python3 - "$SRC/meta.json" "$D/meta.json" "$CHECKS" <<PY
import json,sys
m=json.load(open(sys.argv[1]))
m['confirmation']={'patched_build_exit':$BUILD,'patched_suite_exit':$SUITE}
m['checks_run']=sys.argv[3].split()
m['check_output']='''$OUT'''.strip().split('\n')
m['alarm']=('VIOLATION' in '''$OUT''')
json.dump(m,open(sys.argv[2],'w'),indent=1)
PY
