#!/bin/bash
# usage: [SEED_SRC=<dir with patch.diff, demo*.go, meta.json>] tools/seed_eval.sh <PROP> <k> [check-prop ...]
# Confirms a sub-agent mutant in a scratch worktree (suite passes, demo passes clean / fails patched), then applies it to
# /repo, runs the owning check(s) and restores /repo. Writes /verif/seeded/<PROP>-m<k>/{patch.diff,demo*,meta.json}.
set -u
export GOFLAGS=-mod=mod GOPROXY=off GOSUMDB=off GOTOOLCHAIN=local
P=$1; K=$2; shift 2; CHECKS="${*:-$P}"
SRC=${SEED_SRC:-/tmp/$P-work/mutant-$K}
[ -f $SRC/patch.diff ] || { echo "no such mutant $SRC"; exit 2; }
WT=/tmp/wt-eval-$P-$K
git -C /repo worktree remove --force $WT 2>/dev/null
git -C /repo worktree add -q $WT HEAD || exit 2
DEMO=$(ls $SRC | grep -E '^demo.*\.go$' | head -1)
DIR=$(python3 -c "import json,re;print(re.sub(r'^/tmp/wt[0-9]*-$P/','',json.load(open('$SRC/meta.json')).get('demo_package_dir','')).strip('/'))")
[ -n "$DIR" ] || DIR=$(grep -m1 -oE 'plugins/[a-z/]+|server' $SRC/$DEMO | head -1)
res() { echo "$1" >> $WT/.evalres; }
cd $WT
cp $SRC/$DEMO $DIR/zz_demo_test.go
RUNPAT=$(grep -oE 'func (Test[A-Za-z0-9_]+)' $DIR/zz_demo_test.go | awk '{print $2}' | paste -sd'|')
go test -vet=off -count=1 -run "^($RUNPAT)\$" ./$DIR/ > /tmp/eval-$P-$K-clean.log 2>&1; CLEAN_DEMO=$?
rm $DIR/zz_demo_test.go
go build ./... && go test -vet=off -count=1 ./... > /tmp/eval-$P-$K-suite0.log 2>&1; SUITE0=$?
git apply $SRC/patch.diff || { echo "patch does not apply"; cd /; git -C /repo worktree remove --force $WT; exit 2; }
go build ./... > /tmp/eval-$P-$K-build.log 2>&1; BUILD=$?
go test -vet=off -count=1 ./... > /tmp/eval-$P-$K-suite1.log 2>&1; SUITE1=$?
cp $SRC/$DEMO $DIR/zz_demo_test.go
go test -vet=off -count=1 -run "^($RUNPAT)\$" ./$DIR/ > /tmp/eval-$P-$K-patched.log 2>&1; PATCHED_DEMO=$?
cd /; git -C /repo worktree remove --force $WT
echo "confirm: clean demo exit=$CLEAN_DEMO suite=$SUITE0 | patched build=$BUILD suite=$SUITE1 demo exit=$PATCHED_DEMO"
OK=0; [ $CLEAN_DEMO -eq 0 ] && [ $SUITE0 -eq 0 ] && [ $BUILD -eq 0 ] && [ $SUITE1 -eq 0 ] && [ $PATCHED_DEMO -ne 0 ] && OK=1
# run the checks against /repo with the patch applied
cd /repo && git diff --quiet || { echo "/repo not clean"; exit 2; }
git apply $SRC/patch.diff || exit 2
OUT=""
for C in $CHECKS; do
  R=$(cd /verif && VERIF_SHRINK_S=8 ./check run $C --tier quick 2>&1 | grep -a -E "^VIOLATION|class=|check: property=.*runs=|MACHINERY|KNOWN" | cut -c1-220)
  OUT="$OUT
[$C] $R"
done
git checkout -- . && git clean -fdq
echo "$OUT"
D=/verif/seeded/$P-m$K; mkdir -p $D; cp $SRC/patch.diff $D/; cp $SRC/$DEMO $D/
python3 - "$SRC/meta.json" "$D/meta.json" "$OK" "$CHECKS" <<PY
import json,sys
m=json.load(open(sys.argv[1]))
m['confirmed_in_scratch_worktree']=bool(int(sys.argv[3]))
m['confirmation']={'clean_demo_exit':$CLEAN_DEMO,'clean_suite_exit':$SUITE0,'patched_build_exit':$BUILD,'patched_suite_exit':$SUITE1,'patched_demo_exit':$PATCHED_DEMO}
m['checks_run']=sys.argv[4].split()
m['check_output']='''$OUT'''.strip().split('\n')
m['caught']=('VIOLATION' in '''$OUT''')
json.dump(m,open(sys.argv[2],'w'),indent=1)
PY
