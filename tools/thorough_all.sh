#!/bin/sh
# runs the thorough tier of every claimed property, one after the other, and prints the verdict lines.
# VERIF_THOROUGH_SCALE=<percent> scales the run counts of the netsim properties (default 100).
cd "$(dirname "$0")/.."
S=${VERIF_THOROUGH_SCALE:-100}
for p in C04 C05 C06 C07 C02 C03 C08 C09 C10 C11 C12 C13 C14 C15 C17 C19 C01 C16; do
  echo "=== $p"
  RUNS=""
  if [ "$S" != 100 ]; then
    case $p in
      C04|C05|C06|C07) ;;
      C19|C01) RUNS="--runs $((300000*S/100))";;
      C16) RUNS="--runs $((40000*S/100))";;
      *) RUNS="--runs $((200000*S/100))";;
    esac
  fi
  VERIF_REPO=${VP_RUN_REPO:-/repo} ./check run $p --tier thorough $RUNS 2>&1 | grep -a -E "^VIOLATION|^KNOWN|class=|check: prop|MACHINERY|^  [A-Za-z]" | cut -c1-400 | head -30
done
