#!/bin/sh
# usage: tools/revert_check.sh <repo-commit> <property> [runs]  -- reverts one commit in /repo's working tree, runs the check, restores the tree
set -u
C=$1; P=$2; R=${3:-1500}
cd /repo && git diff --quiet || { echo "repo working tree not clean"; exit 2; }
git show "$C" | git apply -R || exit 2
cd /verif && ./check run "$P" --runs "$R" 2>&1 | grep -v "^    " | grep -E "VIOLATION|KNOWN|class=|check: property" | head -12
cd /repo && git checkout -- .
