package main

import (
	"fmt"
	"go/ast"
	"go/parser"
	"go/token"
	"os"
	"path/filepath"
	"strings"
)

// lintNorace enforces the runtime's discipline: every non-generic function in
// simrt carries //go:norace, except those marked "// race-visible:" on purpose.
func lintNorace(dir string) error {
	fset := token.NewFileSet()
	ents, err := os.ReadDir(dir)
	if err != nil {
		return err
	}
	var bad []string
	for _, e := range ents {
		if !strings.HasSuffix(e.Name(), ".go") || strings.HasSuffix(e.Name(), "_gen.go") {
			continue
		}
		f, err := parser.ParseFile(fset, filepath.Join(dir, e.Name()), nil, parser.ParseComments)
		if err != nil {
			return err
		}
		for _, d := range f.Decls {
			fd, ok := d.(*ast.FuncDecl)
			if !ok || fd.Body == nil {
				continue
			}
			if fd.Type.TypeParams != nil && len(fd.Type.TypeParams.List) > 0 {
				continue
			}
			doc := ""
			if fd.Doc != nil {
				for _, c := range fd.Doc.List {
					doc += c.Text + "\n"
				}
			}
			if strings.Contains(doc, "//go:norace") || strings.Contains(doc, "race-visible") {
				continue
			}
			bad = append(bad, fmt.Sprintf("%s: func %s lacks //go:norace", fset.Position(fd.Pos()), fd.Name.Name))
		}
	}
	if len(bad) > 0 {
		return fmt.Errorf("simrt discipline:\n  %s", strings.Join(bad, "\n  "))
	}
	return nil
}
