// simbuild instruments a scratch copy of the coredhcp working tree for
// deterministic simulation (DESIGN.md §2.1). Nothing under /repo is modified.
//
//	simbuild -repo /repo -sim /verif/sim -out /dev/shm/verif-build-XXXX
//
// Steps: copy the tree, type-check the packages under test with go/packages,
// rewrite their ASTs (yield points, go statements, map/channel ranges, seam
// selectors), write them back, copy the simulation runtime and engines into the
// copy under zzverif/, extend go.mod.
//
// Exit status 2 with a reason if a seam the simulation relies on is missing or
// the tree uses a construct the rewriter cannot lower faithfully (select,
// math/rand, timers).
package main

import (
	"bytes"
	"flag"
	"fmt"
	"go/ast"
	"go/format"
	"go/token"
	"go/types"
	"io/fs"
	"os"
	"os/exec"
	"path/filepath"
	"sort"
	"strconv"
	"strings"

	"golang.org/x/tools/go/packages"
)

const simrtPath = "github.com/coredhcp/coredhcp/zzverif/simrt"
const simrtName = "zzsimrt"

var patterns = []string{"./server/...", "./plugins/...", "./handler/...", "./logger/...", "./config/..."}

func die(format string, a ...interface{}) {
	fmt.Fprintf(os.Stderr, "simbuild: "+format+"\n", a...)
	os.Exit(2)
}

// seam table: (import path, name) -> simrt name. "!" = unsupported (build fails).
var seams = map[string]map[string]string{
	"sync": {"Mutex": "Mutex", "RWMutex": "RWMutex", "Pool": "Pool", "WaitGroup": "WaitGroup", "Once": "Once", "Cond": "!", "NewCond": "!", "Map": "!", "OnceFunc": "!", "OnceValue": "!", "OnceValues": "!"},
	"time": {"Now": "Now", "Since": "Since", "Until": "Until", "Sleep": "Sleep",
		"After": "After", "AfterFunc": "AfterFunc", "NewTimer": "NewTimer", "NewTicker": "NewTicker", "Tick": "Tick", "Timer": "Timer", "Ticker": "Ticker"},
	"os":                           {"ReadFile": "ReadFile", "Open": "Open", "OpenFile": "OpenFile", "Stat": "Stat", "Lstat": "Stat"},
	"io/ioutil":                    {"ReadFile": "ReadFile"},
	"github.com/fsnotify/fsnotify": {"NewWatcher": "NewWatcher", "NewBufferedWatcher": "NewBufferedWatcher", "Watcher": "Watcher"},
	"database/sql":                 {"Open": "SQLOpen"},
	"net": {"InterfaceByIndex": "InterfaceByIndex", "InterfaceByName": "InterfaceByName", "Interfaces": "Interfaces", "InterfaceAddrs": "InterfaceAddrs",
		// real sockets and the resolver have no place in a simulated run (the server's sockets come from server4/server6)
		"Listen": "!", "ListenPacket": "!", "ListenUDP": "!", "ListenMulticastUDP": "!", "ListenIP": "!", "ListenConfig": "!", "Dial": "!", "DialUDP": "!", "DialIP": "!",
		"DialTimeout": "!", "Dialer": "!", "FilePacketConn": "!", "FileConn": "!", "LookupHost": "!", "LookupIP": "!", "LookupAddr": "!", "ResolveUDPAddr": "!", "ResolveIPAddr": "!"},
	"syscall": {"Socket": "SysSocket", "Close": "SysClose", "SetsockoptInt": "SysSetsockoptInt", "Sendto": "SysSendto"},
	// the UDP sockets of server.listen4/listen6 ("pkg:Name" = a name in zzverif/<pkg>; the type names are kept so that
	// the embedded field of listener4/listener6 is still called PacketConn)
	"github.com/insomniacslk/dhcp/dhcpv4/server4": {"NewIPv4UDPConn": "NewIPv4UDPConn"},
	"github.com/insomniacslk/dhcp/dhcpv6/server6": {"NewIPv6UDPConn": "NewIPv6UDPConn"},
	"golang.org/x/net/ipv4":                       {"NewPacketConn": "sim4:NewPacketConn", "PacketConn": "sim4:PacketConn", "NewConn": "!", "NewRawConn": "!"},
	"golang.org/x/net/ipv6":                       {"NewPacketConn": "sim6:NewPacketConn", "PacketConn": "sim6:PacketConn", "NewConn": "!"},
	"math/rand":                                   {"*": "!"},
	"math/rand/v2":                                {"*": "!"},
	"crypto/rand":                                 {"*": "!"},
}

type rewriter struct {
	fset   *token.FileSet
	info   *types.Info
	pkg    *types.Package
	file   *ast.File
	fname  string // path relative to repo root
	sites  *[]string
	tmp    int
	needRT bool
	extra  map[string]bool // further zzverif packages this file needs (sim4, sim6)
	errs   []string
	loops  []*loopCtx // enclosing for/range statements (innermost last); reset at function literals
}

type loopCtx struct {
	label     string
	needLabel bool
}

func (r *rewriter) errorf(pos token.Pos, format string, a ...interface{}) {
	r.errs = append(r.errs, fmt.Sprintf("%s: %s", r.fset.Position(pos), fmt.Sprintf(format, a...)))
}

func (r *rewriter) newSite(pos token.Pos) int {
	p := r.fset.Position(pos)
	*r.sites = append(*r.sites, fmt.Sprintf("%s:%d", r.fname, p.Line))
	return len(*r.sites) - 1
}

func (r *rewriter) rt(name string) ast.Expr {
	r.needRT = true
	return &ast.SelectorExpr{X: ast.NewIdent(simrtName), Sel: ast.NewIdent(name)}
}

func (r *rewriter) call(name string, args ...ast.Expr) *ast.CallExpr {
	return &ast.CallExpr{Fun: r.rt(name), Args: args}
}

func (r *rewriter) yieldStmt(pos token.Pos) ast.Stmt {
	return &ast.ExprStmt{X: r.call("Yield", &ast.BasicLit{Kind: token.INT, Value: strconv.Itoa(r.newSite(pos))})}
}

func (r *rewriter) fresh(prefix string) *ast.Ident {
	r.tmp++
	return ast.NewIdent(fmt.Sprintf("zz%s%d", prefix, r.tmp))
}

func (r *rewriter) typeOf(e ast.Expr) types.Type {
	if tv, ok := r.info.Types[e]; ok {
		return tv.Type
	}
	return nil
}

// stmts rewrites a statement list: inserts yields and lowers statements.
func (r *rewriter) stmts(list []ast.Stmt) []ast.Stmt {
	var out []ast.Stmt
	for _, st := range list {
		pos := st.Pos()
		pre, st2 := r.stmt(st)
		out = append(out, r.yieldStmt(pos))
		out = append(out, pre...)
		out = append(out, st2)
	}
	return out
}

func (r *rewriter) block(b *ast.BlockStmt) {
	if b == nil {
		return
	}
	b.List = r.stmts(b.List)
}

// stmt rewrites one statement; pre are statements to place before it (same scope).
func (r *rewriter) stmt(st ast.Stmt) (pre []ast.Stmt, out ast.Stmt) {
	switch s := st.(type) {
	case *ast.BlockStmt:
		r.block(s)
	case *ast.IfStmt:
		if s.Init != nil {
			_, s.Init = r.stmt(s.Init)
		}
		s.Cond = r.expr(s.Cond)
		r.block(s.Body)
		if s.Else != nil {
			_, s.Else = r.stmt(s.Else)
		}
	case *ast.ForStmt:
		return nil, r.forStmt(s, "")
	case *ast.RangeStmt:
		lc := r.pushLoop("")
		pre, out := r.rangeStmt(s, nil)
		return pre, r.popLoop(lc, out)
	case *ast.SwitchStmt:
		if s.Init != nil {
			_, s.Init = r.stmt(s.Init)
		}
		if s.Tag != nil {
			s.Tag = r.expr(s.Tag)
		}
		r.caseClauses(s.Body)
	case *ast.TypeSwitchStmt:
		if s.Init != nil {
			_, s.Init = r.stmt(s.Init)
		}
		_, s.Assign = r.stmt(s.Assign)
		r.caseClauses(s.Body)
	case *ast.SelectStmt:
		return nil, r.selectStmt(s)
	case *ast.LabeledStmt:
		if rs, ok := s.Stmt.(*ast.RangeStmt); ok {
			lc := r.pushLoop(s.Label.Name)
			pre, out := r.rangeStmt(rs, s)
			r.popLoop(lc, nil)
			return pre, out
		}
		if fs, ok := s.Stmt.(*ast.ForStmt); ok {
			s.Stmt = r.forStmt(fs, s.Label.Name)
			return nil, s
		}
		var p []ast.Stmt
		p, s.Stmt = r.stmt(s.Stmt)
		if len(p) > 0 {
			// keep the label on the original statement
			return p, s
		}
	case *ast.GoStmt:
		return nil, r.goStmt(s)
	case *ast.DeferStmt:
		s.Call = r.expr(s.Call).(*ast.CallExpr)
	case *ast.ExprStmt:
		s.X = r.expr(s.X)
	case *ast.SendStmt:
		return nil, &ast.ExprStmt{X: r.call("Send", r.expr(s.Chan), r.expr(s.Value))}
	case *ast.IncDecStmt:
		s.X = r.expr(s.X)
	case *ast.AssignStmt:
		// v, ok := <-ch
		if len(s.Lhs) == 2 && len(s.Rhs) == 1 {
			if u, ok := s.Rhs[0].(*ast.UnaryExpr); ok && u.Op == token.ARROW {
				s.Rhs[0] = r.call("Recv", r.expr(u.X))
				for i := range s.Lhs {
					s.Lhs[i] = r.expr(s.Lhs[i])
				}
				return nil, s
			}
		}
		for i := range s.Lhs {
			s.Lhs[i] = r.expr(s.Lhs[i])
		}
		for i := range s.Rhs {
			s.Rhs[i] = r.expr(s.Rhs[i])
		}
	case *ast.ReturnStmt:
		for i := range s.Results {
			s.Results[i] = r.expr(s.Results[i])
		}
	case *ast.DeclStmt:
		if gd, ok := s.Decl.(*ast.GenDecl); ok {
			r.genDecl(gd)
		}
	case *ast.BranchStmt, *ast.EmptyStmt:
	default:
		r.errorf(st.Pos(), "unhandled statement %T", st)
	}
	return nil, st
}

func (r *rewriter) caseClauses(body *ast.BlockStmt) {
	for _, c := range body.List {
		cc := c.(*ast.CaseClause)
		for i := range cc.List {
			cc.List[i] = r.expr(cc.List[i])
		}
		cc.Body = r.stmts(cc.Body)
	}
}

func (r *rewriter) genDecl(gd *ast.GenDecl) {
	for _, sp := range gd.Specs {
		switch s := sp.(type) {
		case *ast.ValueSpec:
			if s.Type != nil {
				s.Type = r.expr(s.Type)
			}
			for i := range s.Values {
				s.Values[i] = r.expr(s.Values[i])
			}
		case *ast.TypeSpec:
			s.Type = r.expr(s.Type)
		}
	}
}

// rangeStmt lowers range over maps and channels; other ranges only get their body instrumented.
func (r *rewriter) rangeStmt(s *ast.RangeStmt, label *ast.LabeledStmt) (pre []ast.Stmt, out ast.Stmt) {
	wrap := func(st ast.Stmt) ast.Stmt {
		if label != nil {
			label.Stmt = st
			return label
		}
		return st
	}
	t := r.typeOf(s.X)
	s.X = r.expr(s.X)
	var under types.Type
	if t != nil {
		under = t.Underlying()
	}
	isBlank := func(e ast.Expr) bool {
		if e == nil {
			return true
		}
		id, ok := e.(*ast.Ident)
		return ok && id.Name == "_"
	}
	switch under.(type) {
	case *types.Map:
		m := r.fresh("m")
		k := r.fresh("k")
		pre = append(pre, &ast.AssignStmt{Lhs: []ast.Expr{m}, Tok: token.DEFINE, Rhs: []ast.Expr{s.X}})
		var head []ast.Stmt
		okv := r.fresh("ok")
		// skip keys deleted during iteration
		var valLHS ast.Expr = ast.NewIdent("_")
		tok := s.Tok
		if tok == token.ILLEGAL {
			tok = token.DEFINE
		}
		if !isBlank(s.Key) {
			head = append(head, &ast.AssignStmt{Lhs: []ast.Expr{r.expr(s.Key)}, Tok: tok, Rhs: []ast.Expr{k}})
			if tok == token.DEFINE {
				head = append(head, &ast.AssignStmt{Lhs: []ast.Expr{ast.NewIdent("_")}, Tok: token.ASSIGN, Rhs: []ast.Expr{s.Key}})
			}
		}
		if !isBlank(s.Value) {
			if tok == token.DEFINE {
				tmpv := r.fresh("v")
				head = append(head, &ast.AssignStmt{Lhs: []ast.Expr{tmpv, okv}, Tok: token.DEFINE,
					Rhs: []ast.Expr{&ast.IndexExpr{X: m, Index: k}}})
				head = append(head, &ast.IfStmt{Cond: &ast.UnaryExpr{Op: token.NOT, X: okv}, Body: &ast.BlockStmt{List: []ast.Stmt{&ast.BranchStmt{Tok: token.CONTINUE}}}})
				head = append(head, &ast.AssignStmt{Lhs: []ast.Expr{r.expr(s.Value)}, Tok: token.DEFINE, Rhs: []ast.Expr{tmpv}})
				head = append(head, &ast.AssignStmt{Lhs: []ast.Expr{ast.NewIdent("_")}, Tok: token.ASSIGN, Rhs: []ast.Expr{s.Value}})
			} else {
				tmpv := r.fresh("v")
				head = append(head, &ast.AssignStmt{Lhs: []ast.Expr{tmpv, okv}, Tok: token.DEFINE,
					Rhs: []ast.Expr{&ast.IndexExpr{X: m, Index: k}}})
				head = append(head, &ast.IfStmt{Cond: &ast.UnaryExpr{Op: token.NOT, X: okv}, Body: &ast.BlockStmt{List: []ast.Stmt{&ast.BranchStmt{Tok: token.CONTINUE}}}})
				head = append(head, &ast.AssignStmt{Lhs: []ast.Expr{r.expr(s.Value)}, Tok: token.ASSIGN, Rhs: []ast.Expr{tmpv}})
			}
		} else {
			head = append(head, &ast.AssignStmt{Lhs: []ast.Expr{valLHS, okv}, Tok: token.DEFINE,
				Rhs: []ast.Expr{&ast.IndexExpr{X: m, Index: k}}})
			head = append(head, &ast.IfStmt{Cond: &ast.UnaryExpr{Op: token.NOT, X: okv}, Body: &ast.BlockStmt{List: []ast.Stmt{&ast.BranchStmt{Tok: token.CONTINUE}}}})
		}
		r.block(s.Body)
		s.Body.List = append(head, s.Body.List...)
		loop := &ast.RangeStmt{Key: ast.NewIdent("_"), Value: k, Tok: token.DEFINE, X: r.call("MapKeys", m), Body: s.Body}
		return pre, wrap(loop)
	case *types.Chan:
		okv := r.fresh("ok")
		var lhs ast.Expr = ast.NewIdent("_")
		tok := token.DEFINE
		var head []ast.Stmt
		if !isBlank(s.Key) {
			if s.Tok == token.ASSIGN {
				tmpv := r.fresh("v")
				head = append(head, &ast.AssignStmt{Lhs: []ast.Expr{tmpv, okv}, Tok: token.DEFINE, Rhs: []ast.Expr{r.call("Recv", s.X)}})
				head = append(head, &ast.IfStmt{Cond: &ast.UnaryExpr{Op: token.NOT, X: okv}, Body: &ast.BlockStmt{List: []ast.Stmt{&ast.BranchStmt{Tok: token.BREAK}}}})
				head = append(head, &ast.AssignStmt{Lhs: []ast.Expr{r.expr(s.Key)}, Tok: token.ASSIGN, Rhs: []ast.Expr{tmpv}})
			} else {
				lhs = s.Key
			}
		}
		if head == nil {
			head = append(head, &ast.AssignStmt{Lhs: []ast.Expr{lhs, okv}, Tok: tok, Rhs: []ast.Expr{r.call("Recv", s.X)}})
			head = append(head, &ast.IfStmt{Cond: &ast.UnaryExpr{Op: token.NOT, X: okv}, Body: &ast.BlockStmt{List: []ast.Stmt{&ast.BranchStmt{Tok: token.BREAK}}}})
			if !isBlank(s.Key) {
				head = append(head, &ast.AssignStmt{Lhs: []ast.Expr{ast.NewIdent("_")}, Tok: token.ASSIGN, Rhs: []ast.Expr{s.Key}})
			}
		}
		r.block(s.Body)
		s.Body.List = append(head, s.Body.List...)
		return nil, wrap(&ast.ForStmt{Body: s.Body})
	}
	if s.Key != nil {
		s.Key = r.expr(s.Key)
	}
	if s.Value != nil {
		s.Value = r.expr(s.Value)
	}
	r.block(s.Body)
	return nil, wrap(s)
}

// goStmt lowers `go f(a, b)` to { f', a', b' := f, a, b; simrt.Go(site, func(){ f'(a', b') }) }.
func (r *rewriter) goStmt(s *ast.GoStmt) ast.Stmt {
	site := &ast.BasicLit{Kind: token.INT, Value: strconv.Itoa(r.newSite(s.Pos()))}
	call := s.Call
	if fl, ok := call.Fun.(*ast.FuncLit); ok && len(call.Args) == 0 {
		r.funcLit(fl)
		return &ast.ExprStmt{X: r.call("Go", site, fl)}
	}
	if id, ok := call.Fun.(*ast.Ident); ok {
		if _, isBuiltin := r.info.Uses[id].(*types.Builtin); isBuiltin {
			r.errorf(s.Pos(), "go statement on builtin %s not supported", id.Name)
			return s
		}
	}
	var assignL, assignR []ast.Expr
	fn := r.fresh("f")
	assignL = append(assignL, fn)
	assignR = append(assignR, r.expr(call.Fun))
	var args []ast.Expr
	for _, a := range call.Args {
		if tv, ok := r.info.Types[a]; ok && tv.Value != nil {
			args = append(args, a) // constant: keep in place so that it stays untyped
			continue
		}
		v := r.fresh("a")
		assignL = append(assignL, v)
		assignR = append(assignR, r.expr(a))
		args = append(args, v)
	}
	inner := &ast.CallExpr{Fun: fn, Args: args, Ellipsis: call.Ellipsis}
	if call.Ellipsis == token.NoPos {
		inner.Ellipsis = token.NoPos
	}
	lit := &ast.FuncLit{Type: &ast.FuncType{Params: &ast.FieldList{}}, Body: &ast.BlockStmt{List: []ast.Stmt{&ast.ExprStmt{X: inner}}}}
	return &ast.BlockStmt{List: []ast.Stmt{
		&ast.AssignStmt{Lhs: assignL, Tok: token.DEFINE, Rhs: assignR},
		&ast.ExprStmt{X: r.call("Go", site, lit)},
	}}
}

func (r *rewriter) funcLit(fl *ast.FuncLit) {
	fl.Type = r.expr(fl.Type).(*ast.FuncType)
	saved := r.loops
	r.loops = nil
	r.block(fl.Body)
	r.loops = saved
}

func (r *rewriter) pushLoop(label string) *loopCtx {
	lc := &loopCtx{label: label}
	r.loops = append(r.loops, lc)
	return lc
}

// popLoop ends a loop context; when a lowered select inside the loop needed to name it, the loop gets a label.
func (r *rewriter) popLoop(lc *loopCtx, loop ast.Stmt) ast.Stmt {
	r.loops = r.loops[:len(r.loops)-1]
	if loop != nil && lc.needLabel {
		if _, already := loop.(*ast.LabeledStmt); !already {
			return &ast.LabeledStmt{Label: ast.NewIdent(lc.label), Stmt: loop}
		}
	}
	return loop
}

func (r *rewriter) forStmt(s *ast.ForStmt, label string) ast.Stmt {
	lc := r.pushLoop(label)
	if s.Init != nil {
		_, s.Init = r.stmt(s.Init)
	}
	if s.Cond != nil {
		s.Cond = r.expr(s.Cond)
	}
	if s.Post != nil {
		_, s.Post = r.stmt(s.Post)
	}
	r.block(s.Body)
	if label != "" {
		r.popLoop(lc, nil)
		return s
	}
	return r.popLoop(lc, s)
}

// relabelContinues rewrites unlabeled `continue` statements that belong to the loop enclosing a select (those not
// nested in an inner loop or function literal) into `continue <label>`: the lowered select is itself a for loop.
func (r *rewriter) relabelContinues(list []ast.Stmt) {
	var walk func(n ast.Node) bool
	walk = func(n ast.Node) bool {
		switch x := n.(type) {
		case *ast.ForStmt, *ast.RangeStmt, *ast.FuncLit:
			return false
		case *ast.BranchStmt:
			if x.Tok == token.CONTINUE && x.Label == nil {
				if len(r.loops) == 0 {
					r.errorf(x.Pos(), "continue inside select outside any loop")
					return false
				}
				lc := r.loops[len(r.loops)-1]
				if lc.label == "" {
					r.tmp++
					lc.label = fmt.Sprintf("zzloop%d", r.tmp)
					lc.needLabel = true
				}
				x.Label = ast.NewIdent(lc.label)
			}
		}
		return true
	}
	for _, st := range list {
		ast.Inspect(st, walk)
	}
}

// selectStmt lowers select into a polling loop over simrt.TryRecv/TrySend (channel operands and sent values are
// evaluated once, as Go does; the order in which ready cases are tried is drawn from the tape):
//
//	{ c0 := ch0; c1, v1 := ch1, val; zzsel: for { for _, i := range simrt.SelectOrder(n) { switch i {
//	    case 0: if x, ok, got := simrt.TryRecv(c0); got { ...; break zzsel }
//	    case 1: if simrt.TrySend(c1, v1) { ...; break zzsel } } }
//	    <default body; break zzsel>  |  simrt.SelectPark() } }
func (r *rewriter) selectStmt(s *ast.SelectStmt) ast.Stmt {
	r.tmp++
	selLabel := fmt.Sprintf("zzsel%d", r.tmp)
	var pre []ast.Stmt
	var cases []ast.Stmt
	var defaultBody []ast.Stmt
	hasDefault := false
	idx := 0
	brk := func() ast.Stmt { return &ast.BranchStmt{Tok: token.BREAK, Label: ast.NewIdent(selLabel)} }
	for _, c := range s.Body.List {
		cc := c.(*ast.CommClause)
		r.relabelContinues(cc.Body)
		body := r.stmts(cc.Body)
		// an unlabeled break in a case body leaves the select: in the lowered form it must leave the polling loop
		relabelBreaks(body, selLabel)
		if cc.Comm == nil {
			hasDefault = true
			defaultBody = body
			continue
		}
		var cond ast.Stmt
		var head []ast.Stmt
		switch cm := cc.Comm.(type) {
		case *ast.SendStmt:
			ch, v := r.fresh("c"), r.fresh("v")
			pre = append(pre, &ast.AssignStmt{Lhs: []ast.Expr{ch, v}, Tok: token.DEFINE, Rhs: []ast.Expr{r.expr(cm.Chan), r.expr(cm.Value)}})
			cond = &ast.IfStmt{Cond: r.call("TrySend", ch, v), Body: &ast.BlockStmt{List: append(body, brk())}}
		case *ast.ExprStmt:
			u, ok := cm.X.(*ast.UnaryExpr)
			if !ok || u.Op != token.ARROW {
				r.errorf(cm.Pos(), "unsupported select case")
				continue
			}
			ch := r.fresh("c")
			pre = append(pre, &ast.AssignStmt{Lhs: []ast.Expr{ch}, Tok: token.DEFINE, Rhs: []ast.Expr{r.expr(u.X)}})
			got := r.fresh("got")
			cond = &ast.IfStmt{
				Init: &ast.AssignStmt{Lhs: []ast.Expr{ast.NewIdent("_"), ast.NewIdent("_"), got}, Tok: token.DEFINE, Rhs: []ast.Expr{r.call("TryRecv", ch)}},
				Cond: got, Body: &ast.BlockStmt{List: append(body, brk())}}
		case *ast.AssignStmt:
			u, ok := cm.Rhs[0].(*ast.UnaryExpr)
			if !ok || u.Op != token.ARROW || len(cm.Rhs) != 1 {
				r.errorf(cm.Pos(), "unsupported select case")
				continue
			}
			ch := r.fresh("c")
			pre = append(pre, &ast.AssignStmt{Lhs: []ast.Expr{ch}, Tok: token.DEFINE, Rhs: []ast.Expr{r.expr(u.X)}})
			val, okv, got := r.fresh("rv"), r.fresh("rok"), r.fresh("got")
			lhs := []ast.Expr{r.expr(cm.Lhs[0])}
			rhs := []ast.Expr{val}
			if len(cm.Lhs) == 2 {
				lhs = append(lhs, r.expr(cm.Lhs[1]))
				rhs = append(rhs, okv)
			}
			head = append(head, &ast.AssignStmt{Lhs: lhs, Tok: cm.Tok, Rhs: rhs})
			if cm.Tok == token.DEFINE {
				for _, l := range cm.Lhs {
					if id, ok := l.(*ast.Ident); ok && id.Name != "_" {
						head = append(head, &ast.AssignStmt{Lhs: []ast.Expr{ast.NewIdent("_")}, Tok: token.ASSIGN, Rhs: []ast.Expr{ast.NewIdent(id.Name)}})
					}
				}
			}
			head = append(head, &ast.AssignStmt{Lhs: []ast.Expr{ast.NewIdent("_")}, Tok: token.ASSIGN, Rhs: []ast.Expr{okv}})
			cond = &ast.IfStmt{
				Init: &ast.AssignStmt{Lhs: []ast.Expr{val, okv, got}, Tok: token.DEFINE, Rhs: []ast.Expr{r.call("TryRecv", ch)}},
				Cond: got, Body: &ast.BlockStmt{List: append(append(head, body...), brk())}}
		default:
			r.errorf(cc.Pos(), "unsupported select case")
			continue
		}
		cases = append(cases, &ast.CaseClause{List: []ast.Expr{&ast.BasicLit{Kind: token.INT, Value: strconv.Itoa(idx)}}, Body: []ast.Stmt{cond}})
		idx++
	}
	iv := r.fresh("i")
	poll := &ast.RangeStmt{Key: ast.NewIdent("_"), Value: iv, Tok: token.DEFINE, X: r.call("SelectOrder", &ast.BasicLit{Kind: token.INT, Value: strconv.Itoa(idx)}),
		Body: &ast.BlockStmt{List: []ast.Stmt{&ast.SwitchStmt{Tag: iv, Body: &ast.BlockStmt{List: cases}}}}}
	var loopBody []ast.Stmt
	if idx > 0 {
		loopBody = append(loopBody, poll)
	}
	if hasDefault {
		loopBody = append(loopBody, defaultBody...)
		loopBody = append(loopBody, brk())
	} else {
		loopBody = append(loopBody, &ast.ExprStmt{X: r.call("SelectPark")})
	}
	loop := &ast.LabeledStmt{Label: ast.NewIdent(selLabel), Stmt: &ast.ForStmt{Body: &ast.BlockStmt{List: loopBody}}}
	return &ast.BlockStmt{List: append(pre, loop)}
}

// relabelBreaks turns unlabeled `break` statements that would leave the select (not nested in a loop, switch,
// inner select or function literal) into `break <label>`.
func relabelBreaks(list []ast.Stmt, label string) {
	var walk func(n ast.Node) bool
	walk = func(n ast.Node) bool {
		switch x := n.(type) {
		case *ast.ForStmt, *ast.RangeStmt, *ast.FuncLit, *ast.SwitchStmt, *ast.TypeSwitchStmt, *ast.SelectStmt:
			return false
		case *ast.BranchStmt:
			if x.Tok == token.BREAK && x.Label == nil {
				x.Label = ast.NewIdent(label)
			}
		}
		return true
	}
	for _, st := range list {
		ast.Inspect(st, walk)
	}
}

// expr rewrites seam selectors, channel receives, close(), and instruments function literals.
func (r *rewriter) expr(e ast.Expr) ast.Expr {
	switch x := e.(type) {
	case nil:
		return nil
	case *ast.FuncLit:
		r.funcLit(x)
	case *ast.SelectorExpr:
		if id, ok := x.X.(*ast.Ident); ok {
			if pn, ok := r.info.Uses[id].(*types.PkgName); ok {
				path := pn.Imported().Path()
				if tbl, ok := seams[path]; ok {
					to, ok := tbl[x.Sel.Name]
					if !ok {
						to, ok = tbl["*"]
					}
					if ok {
						if to == "!" {
							r.errorf(x.Pos(), "%s.%s is a source of nondeterminism or blocking the simulator has no seam for", path, x.Sel.Name)
							return x
						}
						if i := strings.IndexByte(to, ':'); i > 0 {
							if r.extra == nil {
								r.extra = map[string]bool{}
							}
							r.extra[to[:i]] = true
							return &ast.SelectorExpr{X: ast.NewIdent("zz" + to[:i]), Sel: ast.NewIdent(to[i+1:])}
						}
						return r.rt(to)
					}
				}
				return x
			}
		}
		x.X = r.expr(x.X)
	case *ast.UnaryExpr:
		if x.Op == token.ARROW {
			return r.call("Recv1", r.expr(x.X))
		}
		x.X = r.expr(x.X)
	case *ast.CallExpr:
		if id, ok := x.Fun.(*ast.Ident); ok && id.Name == "close" {
			if _, isBuiltin := r.info.Uses[id].(*types.Builtin); isBuiltin && len(x.Args) == 1 {
				return r.call("Close", r.expr(x.Args[0]))
			}
		}
		if sel, ok := x.Fun.(*ast.SelectorExpr); ok && len(x.Args) == 0 {
			// (net.Interface).Addrs / MulticastAddrs ask the real kernel about an interface index: simulated interface table instead
			if sl := r.info.Selections[sel]; sl != nil && sl.Kind() == types.MethodVal {
				if fn, ok := sl.Obj().(*types.Func); ok && fn.Pkg() != nil && fn.Pkg().Path() == "net" && (fn.Name() == "Addrs" || fn.Name() == "MulticastAddrs") {
					if recv := fn.Type().(*types.Signature).Recv(); recv != nil && strings.HasSuffix(recv.Type().String(), "net.Interface") {
						return r.call("Iface"+fn.Name(), &ast.SelectorExpr{X: &ast.ParenExpr{X: r.expr(sel.X)}, Sel: ast.NewIdent("Index")})
					}
				}
			}
		}
		x.Fun = r.expr(x.Fun)
		for i := range x.Args {
			x.Args[i] = r.expr(x.Args[i])
		}
	case *ast.BinaryExpr:
		x.X = r.expr(x.X)
		x.Y = r.expr(x.Y)
	case *ast.ParenExpr:
		x.X = r.expr(x.X)
	case *ast.StarExpr:
		x.X = r.expr(x.X)
	case *ast.IndexExpr:
		x.X = r.expr(x.X)
		x.Index = r.expr(x.Index)
	case *ast.IndexListExpr:
		x.X = r.expr(x.X)
		for i := range x.Indices {
			x.Indices[i] = r.expr(x.Indices[i])
		}
	case *ast.SliceExpr:
		x.X = r.expr(x.X)
		x.Low = r.expr(x.Low)
		x.High = r.expr(x.High)
		x.Max = r.expr(x.Max)
	case *ast.TypeAssertExpr:
		x.X = r.expr(x.X)
		x.Type = r.expr(x.Type)
	case *ast.KeyValueExpr:
		// keys of struct literals are field names: leave them; map keys are expressions
		if _, isIdent := x.Key.(*ast.Ident); !isIdent {
			x.Key = r.expr(x.Key)
		}
		x.Value = r.expr(x.Value)
	case *ast.CompositeLit:
		x.Type = r.expr(x.Type)
		for i := range x.Elts {
			x.Elts[i] = r.expr(x.Elts[i])
		}
	case *ast.ArrayType:
		x.Len = r.expr(x.Len)
		x.Elt = r.expr(x.Elt)
	case *ast.MapType:
		x.Key = r.expr(x.Key)
		x.Value = r.expr(x.Value)
	case *ast.ChanType:
		x.Value = r.expr(x.Value)
	case *ast.Ellipsis:
		x.Elt = r.expr(x.Elt)
	case *ast.StructType:
		r.fieldList(x.Fields)
	case *ast.FuncType:
		r.fieldList(x.TypeParams)
		r.fieldList(x.Params)
		r.fieldList(x.Results)
	case *ast.InterfaceType:
		r.fieldList(x.Methods)
	case *ast.Ident, *ast.BasicLit:
	default:
		r.errorf(e.Pos(), "unhandled expression %T", e)
	}
	return e
}

func (r *rewriter) fieldList(fl *ast.FieldList) {
	if fl == nil {
		return
	}
	for _, f := range fl.List {
		f.Type = r.expr(f.Type)
	}
}

func (r *rewriter) rewriteFile() {
	for _, d := range r.file.Decls {
		switch x := d.(type) {
		case *ast.FuncDecl:
			if x.Recv != nil {
				r.fieldList(x.Recv)
			}
			x.Type = r.expr(x.Type).(*ast.FuncType)
			if x.Body != nil {
				r.block(x.Body)
			}
		case *ast.GenDecl:
			if x.Tok != token.IMPORT {
				r.genDecl(x)
			}
		}
	}
}

// fixImports adds the simrt import and drops imports that are no longer referenced.
func (r *rewriter) fixImports() {
	used := map[string]bool{}
	ast.Inspect(r.file, func(n ast.Node) bool {
		if se, ok := n.(*ast.SelectorExpr); ok {
			if id, ok := se.X.(*ast.Ident); ok {
				used[id.Name] = true
			}
		}
		return true
	})
	for _, d := range r.file.Decls {
		gd, ok := d.(*ast.GenDecl)
		if !ok || gd.Tok != token.IMPORT {
			continue
		}
		var keep []ast.Spec
		for _, sp := range gd.Specs {
			is := sp.(*ast.ImportSpec)
			path, _ := strconv.Unquote(is.Path.Value)
			name := ""
			if is.Name != nil {
				name = is.Name.Name
			} else {
				// resolve the package name through type info
				for _, imp := range r.pkg.Imports() {
					if imp.Path() == path {
						name = imp.Name()
					}
				}
				if name == "" {
					name = filepath.Base(path)
				}
			}
			if name == "_" || name == "." || used[name] {
				keep = append(keep, sp)
			}
		}
		gd.Specs = keep
	}
	if r.needRT {
		spec := &ast.ImportSpec{Name: ast.NewIdent(simrtName), Path: &ast.BasicLit{Kind: token.STRING, Value: strconv.Quote(simrtPath)}}
		gd := &ast.GenDecl{Tok: token.IMPORT, Specs: []ast.Spec{spec}}
		r.file.Decls = append([]ast.Decl{gd}, r.file.Decls...)
	}
	for _, pk := range []string{"sim4", "sim6"} {
		if r.extra[pk] {
			spec := &ast.ImportSpec{Name: ast.NewIdent("zz" + pk), Path: &ast.BasicLit{Kind: token.STRING, Value: strconv.Quote(filepath.Dir(simrtPath) + "/" + pk)}}
			r.file.Decls = append([]ast.Decl{&ast.GenDecl{Tok: token.IMPORT, Specs: []ast.Spec{spec}}}, r.file.Decls...)
		}
	}
	// drop empty import decls
	var decls []ast.Decl
	for _, d := range r.file.Decls {
		if gd, ok := d.(*ast.GenDecl); ok && gd.Tok == token.IMPORT && len(gd.Specs) == 0 {
			continue
		}
		decls = append(decls, d)
	}
	r.file.Decls = decls
}

func buildConstraints(src []byte) []string {
	var out []string
	for _, line := range strings.Split(string(src), "\n") {
		t := strings.TrimSpace(line)
		if strings.HasPrefix(t, "package ") {
			break
		}
		if strings.HasPrefix(t, "//go:build") || strings.HasPrefix(t, "// +build") {
			out = append(out, t)
		}
	}
	return out
}

func copyTree(src, dst string, skip func(rel string, d fs.DirEntry) bool) error {
	return filepath.WalkDir(src, func(p string, d fs.DirEntry, err error) error {
		if err != nil {
			return err
		}
		rel, _ := filepath.Rel(src, p)
		if rel != "." && skip(rel, d) {
			if d.IsDir() {
				return filepath.SkipDir
			}
			return nil
		}
		target := filepath.Join(dst, rel)
		if d.IsDir() {
			return os.MkdirAll(target, 0o755)
		}
		if !d.Type().IsRegular() {
			return nil
		}
		b, err := os.ReadFile(p)
		if err != nil {
			return err
		}
		return os.WriteFile(target, b, 0o644)
	})
}

func main() {
	repo := flag.String("repo", "/repo", "coredhcp working tree")
	sim := flag.String("sim", "/verif/sim", "simulation sources (copied to zzverif/)")
	out := flag.String("out", "", "output directory (created)")
	keepTests := flag.Bool("tests", true, "keep the repository's _test.go files (for the semantic-preservation self-test)")
	flag.Parse()
	if *out == "" {
		die("need -out")
	}
	if err := os.MkdirAll(*out, 0o755); err != nil {
		die("%v", err)
	}
	// 1. copy
	err := copyTree(*repo, *out, func(rel string, d fs.DirEntry) bool {
		top := strings.Split(rel, string(filepath.Separator))[0]
		if top == ".git" || top == "integ" || top == "cmds" || top == ".github" || top == "zzverif" {
			return true
		}
		if !*keepTests && strings.HasSuffix(rel, "_test.go") {
			return true
		}
		return false
	})
	if err != nil {
		die("copy: %v", err)
	}
	// 2. load
	cfg := &packages.Config{
		Mode: packages.NeedName | packages.NeedFiles | packages.NeedCompiledGoFiles | packages.NeedSyntax | packages.NeedTypes | packages.NeedTypesInfo | packages.NeedImports,
		Dir:  *out,
		Env:  append(os.Environ(), "GOFLAGS=-mod=mod", "GOPROXY=off", "GOSUMDB=off", "GOTOOLCHAIN=local"),
	}
	pkgs, err := packages.Load(cfg, patterns...)
	if err != nil {
		die("load: %v", err)
	}
	bad := false
	for _, p := range pkgs {
		for _, e := range p.Errors {
			fmt.Fprintf(os.Stderr, "simbuild: %s: %v\n", p.PkgPath, e)
			bad = true
		}
	}
	if bad {
		die("the working tree does not type-check")
	}
	sort.Slice(pkgs, func(i, j int) bool { return pkgs[i].PkgPath < pkgs[j].PkgPath })
	var sites []string
	var errs []string
	nfiles := 0
	seen := map[string]bool{}
	for _, p := range pkgs {
		for i, f := range p.Syntax {
			path := p.CompiledGoFiles[i]
			if !strings.HasPrefix(path, *out) || strings.HasSuffix(path, "_test.go") {
				continue
			}
			rel, _ := filepath.Rel(*out, path)
			seen[filepath.Dir(rel)] = true
			src, err := os.ReadFile(path)
			if err != nil {
				die("%v", err)
			}
			cons := buildConstraints(src)
			r := &rewriter{fset: p.Fset, info: p.TypesInfo, pkg: p.Types, file: f, fname: rel, sites: &sites}
			r.rewriteFile()
			r.fixImports()
			errs = append(errs, r.errs...)
			f.Comments = nil
			f.Doc = nil
			var buf bytes.Buffer
			for _, c := range cons {
				buf.WriteString(c + "\n")
			}
			if len(cons) > 0 {
				buf.WriteString("\n")
			}
			// strip doc comments attached to nodes (positions are stale after rewriting)
			ast.Inspect(f, func(n ast.Node) bool {
				switch x := n.(type) {
				case *ast.FuncDecl:
					x.Doc = nil
				case *ast.GenDecl:
					x.Doc = nil
				case *ast.Field:
					x.Doc, x.Comment = nil, nil
				case *ast.ValueSpec:
					x.Doc, x.Comment = nil, nil
				case *ast.TypeSpec:
					x.Doc, x.Comment = nil, nil
				case *ast.ImportSpec:
					x.Doc, x.Comment = nil, nil
				}
				return true
			})
			if err := format.Node(&buf, token.NewFileSet(), f); err != nil {
				die("print %s: %v", rel, err)
			}
			if err := os.WriteFile(path, buf.Bytes(), 0o644); err != nil {
				die("%v", err)
			}
			nfiles++
		}
	}
	if len(errs) > 0 {
		for _, e := range errs {
			fmt.Fprintln(os.Stderr, "simbuild:", e)
		}
		die("%d construct(s) the simulator cannot lower", len(errs))
	}
	// 3. simulation sources
	zz := filepath.Join(*out, "zzverif")
	if err := copyTree(*sim, zz, func(rel string, d fs.DirEntry) bool { return strings.HasPrefix(filepath.Base(rel), ".") }); err != nil {
		die("copy sim: %v", err)
	}
	// site table
	var sb strings.Builder
	sb.WriteString("package simrt\n\nfunc init() {\n\tSiteTable = []string{\n")
	for _, s := range sites {
		fmt.Fprintf(&sb, "\t\t%q,\n", s)
	}
	sb.WriteString("\t}\n}\n")
	if err := os.WriteFile(filepath.Join(zz, "simrt", "zz_sites_gen.go"), []byte(sb.String()), 0o644); err != nil {
		die("%v", err)
	}
	// lint: every function in simrt must be //go:norace unless generic or explicitly exempted
	if err := lintNorace(filepath.Join(zz, "simrt")); err != nil {
		die("%v", err)
	}
	// 4. go.mod: porcupine
	gm := filepath.Join(*out, "go.mod")
	b, err := os.ReadFile(gm)
	if err != nil {
		die("%v", err)
	}
	if !bytes.Contains(b, []byte("anishathalye/porcupine")) {
		b = append(b, []byte("\nrequire github.com/anishathalye/porcupine v1.3.0\n")...)
		if err := os.WriteFile(gm, b, 0o644); err != nil {
			die("%v", err)
		}
	}
	// sanity: seams that the simulation relies on
	if !seen["server"] {
		die("package server not found")
	}
	fmt.Printf("simbuild: %d files instrumented, %d yield sites -> %s\n", nfiles, len(sites), *out)
	_ = exec.Command
}
