package netsim

import (
	"encoding/binary"
	"fmt"
	"net"
	"path/filepath"

	"github.com/insomniacslk/dhcp/dhcpv4"
	"github.com/insomniacslk/dhcp/dhcpv6"
	"github.com/insomniacslk/dhcp/iana"

	"github.com/coredhcp/coredhcp/zzverif/simrt"
)

// hostile: C01. Any valid chain, a few well-behaved clients that create lease state, and a mutator that
// sends 20..300 datagrams: well-formed, truncated at every boundary, bit-flipped, option-permuted, with
// rewritten length fields, wire-only encodings the codec's constructors cannot produce, deep relay nesting,
// raw garbage of 0..65535 bytes, and replays of earlier datagrams. Monitors: panic / fatal exit, yield
// budget per handler, wedge, at most one reply per datagram, and bounded liveness afterwards.
type hostile struct {
	baseScenario
	c4      []*Client4
	c6      []*Client6
	sid6    dhcpv6.DUID
	hasSID  bool
	sent    [][]byte
	sentV6  []bool
	final   []*DG
	closeAt int64
}

func init() { registerScenario("hostile", func() scenario { return &hostile{} }) }

func (s *hostile) Name() string { return "hostile" }

func (s *hostile) Plan(w *World) {
	t := w.T
	w.Ifaces = defaultIfaces(3)
	w.Has4 = t.Draw(4) != 0
	w.Has6 = !w.Has4 || t.Draw(2) == 1
	mac := net.HardwareAddr{0, 0x11, 0x22, 0x33, 0x44, 0x55}
	s.sid6 = &dhcpv6.DUIDLL{HWType: iana.HWTypeEthernet, LinkLayerAddr: mac}
	lease := filepath.Join(w.Dir, "h-leases.txt")
	lease6 := filepath.Join(w.Dir, "h-leases6.txt")
	w.Sim.FSRegisterDir(w.Dir)
	w.Sim.FSRegisterPath(lease)
	w.Sim.FSRegisterPath(lease6)
	w.Sim.FSCreate(lease, []byte("00:00:00:00:00:01 10.7.0.1\n02:00:00:00:00:02 10.7.0.2\n"))
	w.Sim.FSCreate(lease6, []byte("00:00:00:00:00:01 2001:db8:5::1\n"))
	if w.Has4 {
		// any subset, any order, of the DHCPv4 plugins with valid arguments
		all := []PluginConf{{"server_id", []string{"10.0.0.1"}}, {"file", []string{lease, "autorefresh"}},
			{"range", []string{filepath.Join(w.Dir, "h.sqlite3"), "10.0.3.1", fmt.Sprintf("10.0.3.%d", 2+t.Draw(30)), "60s"}},
			{"dns", []string{"10.0.0.2"}}, {"router", []string{"10.0.0.1"}}, {"netmask", []string{"255.255.255.0"}}, {"lease_time", []string{"90s"}},
			{"mtu", []string{"1400"}}, {"searchdomains", []string{"a.example"}}, {"staticroute", []string{"10.9.0.0/16,10.0.0.1"}},
			{"ipv6only", []string{"300s"}}, {"autoconfigure", []string{"1"}}, {"nbp", []string{"tftp://10.0.0.9/boot.img"}}, {"sleep", []string{"3ms"}}}
		w.Chain4 = subsetOrder(t, all)
	}
	if w.Has6 {
		all := []PluginConf{{"server_id", []string{"LL", mac.String()}}, {"file", []string{lease6}}, {"prefix", []string{"2001:db8:200::/56", "60"}},
			{"dns", []string{"2001:db8::53"}}, {"searchdomains", []string{"a.example"}}, {"nbp", []string{"http://[2001:db8::9]/b.efi?params=x"}}, {"sleep", []string{"2ms"}}}
		w.Chain6 = subsetOrder(t, all)
		for _, p := range w.Chain6 {
			if p.Name == "server_id" {
				s.hasSID = true
			}
		}
	}
	switch t.Draw(3) {
	case 0:
		w.LSpecs = []ListenerSpec{{V6: false, IfIndex: 0}, {V6: true, IfIndex: 0}}
	case 1:
		w.LSpecs = []ListenerSpec{{V6: false, IfIndex: 2}, {V6: false, IfIndex: 3}, {V6: true, IfIndex: 2}, {V6: true, IfIndex: 3}}
	default:
		w.LSpecs = []ListenerSpec{{V6: false, IfIndex: 3}, {V6: false, IfIndex: 0}, {V6: true, IfIndex: 0}}
	}
	switch t.Draw(16) {
	case 0:
		// a socket cannot be opened (EMFILE): Start has to fail and clean up, not crash
		w.Sim.SocketFault(1 + t.Pick(len(w.LSpecs)))
	case 1, 2:
		// a socket is closed under the server some time into the run: its receive loop ends, Wait closes the others
		s.closeAt = 1 + int64(t.Draw(3000))*1e6
	}
	for i := 0; i < 4; i++ {
		hw := drawMAC(t, 6, i+1)
		if i == 0 {
			hw = net.HardwareAddr{0, 0, 0, 0, 0, 1}
		}
		s.c4 = append(s.c4, &Client4{ID: i, MAC: hw, Link: 2 + i%2, Bcast: t.Draw(2) == 1})
		c := &Client6{ID: i, MAC: hw, Link: 2 + i%2, LL: llFromMAC(hw)}
		c.DUID = drawDUID(t, hw, i+1)
		s.c6 = append(s.c6, c)
	}
	w.FaultsOn = t.Draw(2) == 1
	if w.FaultsOn {
		w.DupPct = int(t.Draw(20))
		w.DelayMaxNs = 1e9
	}
	w.Sim.SetPoolReuse(int(t.Draw(3)))
	w.Sim.SetPoolStale(t.Draw(2) == 1)
	n := t.Range(20, 300)
	if t.Draw(3) == 0 {
		n = t.Range(5, 40)
	}
	if s.closeAt > 0 {
		w.Sim.After(s.closeAt, func() {
			var open []int
			for _, p := range w.Sim.Ports() {
				if p.Inc == w.Inc && !p.Closed {
					open = append(open, p.ID)
				}
			}
			if len(open) > 0 {
				id := open[w.T.Pick(len(open))]
				w.hist("FAULT: socket %d is closed under the server", id)
				w.Sim.FaultsFired[simrt.FSockClose]++
				w.Sim.ClosePort(id)
			}
		})
	}
	var at int64
	for i := 0; i < n; i++ {
		if t.Draw(3) == 0 {
			at += int64(t.Draw(300)) * 1e6
		} else {
			at += int64(t.Draw(20)) * 1000
		}
		w.Sim.After(at, func() { s.one(w) })
	}
}

func subsetOrder(t *simrt.Tape, all []PluginConf) []PluginConf {
	var c []PluginConf
	for _, p := range all {
		if t.Draw(2) == 1 {
			c = append(c, p)
		}
	}
	for i := len(c) - 1; i > 0; i-- {
		j := i - int(t.Draw(uint32(i+1)))
		c[i], c[j] = c[j], c[i]
	}
	return c
}

var sizes = []int{0, 1, 2, 3, 4, 33, 34, 235, 236, 239, 240, 241, 243, 300, 576, 1500, 4096, 65507, 65535}

func (s *hostile) one(w *World) {
	t := w.T
	v6 := w.Has6 && (!w.Has4 || t.Draw(2) == 1)
	var b []byte
	kind := ""
	link := 2 + int(t.Draw(2))
	switch k := t.Draw(12); {
	case k == 0 && len(s.sent) > 0:
		// replay an earlier datagram
		i := t.Pick(len(s.sent))
		b, v6, kind = s.sent[i], s.sentV6[i], "REPLAY"
		w.Sim.FaultsFired[simrt.FReplayOld]++
	case k == 1:
		b = make([]byte, sizes[t.Pick(len(sizes))])
		switch t.Draw(3) {
		case 0:
			t.Bytes(b[:min(len(b), 512)])
		case 1:
			for i := range b {
				b[i] = 0xff
			}
		}
		kind = fmt.Sprintf("GARBAGE len=%d", len(b))
	default:
		if v6 {
			b, kind = s.gen6(w)
		} else {
			b, kind = s.gen4(w)
		}
		b, kind = mutate(t, b, kind)
		w.Sim.FaultsFired[simrt.FCorrupt]++
	}
	if len(b) > 65535 {
		b = b[:65535]
	}
	li := w.listenerFor(v6, link)
	if li < 0 {
		return
	}
	src := net.UDPAddr{IP: net.IPv4zero, Port: 68}
	if v6 {
		src = net.UDPAddr{IP: net.ParseIP("fe80::1234"), Port: 546, Zone: w.ifName(link)}
		if t.Draw(3) == 0 {
			src = net.UDPAddr{IP: net.ParseIP("2001:db8:ffff::5"), Port: 547}
		}
	} else if t.Draw(4) == 0 {
		src = net.UDPAddr{IP: net.IP{10, 9, 9, 9}, Port: 67}
	}
	if len(s.sent) < 64 {
		s.sent = append(s.sent, b)
		s.sentV6 = append(s.sentV6, v6)
	}
	proto := "v4"
	if v6 {
		proto = "v6"
	}
	w.Send(li, b, src, link, fmt.Sprintf("%s %s len=%d", proto, kind, len(b)), -1, nil)
}

func min(a, b int) int {
	if a < b {
		return a
	}
	return b
}

// mutate applies byte-level damage to a serialised message.
func mutate(t *simrt.Tape, b []byte, kind string) ([]byte, string) {
	if len(b) == 0 {
		return b, kind
	}
	switch t.Draw(10) {
	case 0, 1, 2:
		return b, kind // well-formed
	case 3:
		n := t.Pick(len(b) + 1)
		return b[:n], kind + fmt.Sprintf(" TRUNC@%d", n)
	case 4:
		c := append([]byte(nil), b...)
		for k := t.Range(1, 8); k > 0; k-- {
			c[t.Pick(len(c))] ^= 1 << t.Draw(8)
		}
		return c, kind + " BITFLIPS"
	case 5:
		// rewrite a byte to a boundary value (hits length fields often)
		c := append([]byte(nil), b...)
		for k := t.Range(1, 4); k > 0; k-- {
			c[t.Pick(len(c))] = []byte{0, 1, 0x7f, 0x80, 0xfe, 0xff}[t.Pick(6)]
		}
		return c, kind + " BOUNDARY-BYTES"
	case 6:
		ext := make([]byte, t.Range(1, 600))
		t.Bytes(ext[:min(len(ext), 64)])
		return append(append([]byte(nil), b...), ext...), kind + " EXTENDED"
	case 7:
		// duplicate a slice of the message inside itself (duplicated / permuted options)
		i := t.Pick(len(b))
		j := i + t.Pick(len(b)-i+1)
		c := append([]byte(nil), b[:j]...)
		c = append(c, b[i:j]...)
		c = append(c, b[j:]...)
		return c, kind + " DUP-SLICE"
	case 8:
		// swap two regions
		c := append([]byte(nil), b...)
		if len(c) > 8 {
			i, j := t.Pick(len(c)-4), t.Pick(len(c)-4)
			for k := 0; k < 4; k++ {
				c[i+k], c[j+k] = c[j+k], c[i+k]
			}
		}
		return c, kind + " SWAP"
	default:
		n := sizes[t.Pick(len(sizes))]
		c := make([]byte, n)
		copy(c, b)
		return c, kind + fmt.Sprintf(" RESIZED=%d", n)
	}
}

func (s *hostile) gen4(w *World) ([]byte, string) {
	t := w.T
	c := s.c4[t.Pick(len(s.c4))]
	m, desc := genReq4(w, c)
	// wire-only option shapes
	switch t.Draw(8) {
	case 0:
		m.Options[53] = nil // zero-length message type
		desc += " type-len0"
	case 1:
		m.Options[55] = make([]byte, 300) // long option: split per RFC 3396
		desc += " prl-300"
	case 2:
		m.Options[82] = []byte{1, 200, 1, 2} // sub-option length beyond the end
		desc += " opt82-bad-suboption"
	case 3:
		m.Options[12] = make([]byte, 255)
		desc += " hostname-255"
	case 4:
		m.Options[61] = nil
		m.Options[50] = []byte{1, 2}
		desc += " short-requested-ip"
	case 5:
		m.Options[116] = []byte{}
		m.Options[108] = []byte{1}
		desc += " odd-116-108"
	}
	return m.ToBytes(), c.String() + " " + desc
}

func (s *hostile) gen6(w *World) ([]byte, string) {
	t := w.T
	c := s.c6[t.Pick(len(s.c6))]
	types := []dhcpv6.MessageType{dhcpv6.MessageTypeSolicit, dhcpv6.MessageTypeRequest, dhcpv6.MessageTypeRenew, dhcpv6.MessageTypeRebind, dhcpv6.MessageTypeRelease,
		dhcpv6.MessageTypeInformationRequest, dhcpv6.MessageTypeConfirm, dhcpv6.MessageTypeDecline, dhcpv6.MessageTypeReply, dhcpv6.MessageTypeAdvertise}
	mt := types[t.Pick(len(types))]
	if t.Draw(6) == 0 {
		mt = dhcpv6.MessageType(t.Draw(256))
	}
	m := w.build6(c, mt)
	if s.hasSID && t.Draw(2) == 1 {
		m.AddOption(dhcpv6.OptServerID(s.sid6))
	}
	desc := mt.String()
	for i, n := 0, t.Range(0, 3); i < n; i++ {
		pd := &dhcpv6.OptIAPD{}
		t.Bytes(pd.IaId[:])
		for j, k := 0, t.Range(0, 3); j < k; j++ {
			h := &dhcpv6.OptIAPrefix{}
			switch t.Draw(6) {
			case 0:
				h.Prefix = nil
			case 1:
				h.Prefix = &net.IPNet{IP: net.ParseIP("2001:db8:200::"), Mask: net.CIDRMask(0, 128)}
			case 2:
				h.Prefix = &net.IPNet{IP: net.ParseIP("2001:db8:200:10::"), Mask: net.CIDRMask(60, 128)}
			case 3:
				h.Prefix = &net.IPNet{IP: make(net.IP, 16), Mask: net.CIDRMask(int(t.Draw(129)), 128)}
			case 4:
				ip := make(net.IP, 16)
				t.Bytes(ip)
				h.Prefix = &net.IPNet{IP: ip, Mask: net.CIDRMask(int(t.Draw(129)), 128)}
			default:
				h.Prefix = &net.IPNet{IP: net.ParseIP("2001:db8:200:20::"), Mask: net.CIDRMask(128, 128)}
			}
			if t.Draw(6) == 0 {
				// IA_PD nested inside an IAPrefix
				h.Options.Add(&dhcpv6.OptIAPD{IaId: [4]byte{9, 9, 9, 9}})
			}
			pd.Options.Add(h)
		}
		if t.Draw(8) == 0 {
			pd.Options.Add(&dhcpv6.OptIAPD{IaId: [4]byte{8, 8, 8, 8}}) // IA_PD inside IA_PD
		}
		m.AddOption(pd)
		desc += " IA_PD"
	}
	if t.Draw(3) == 0 {
		m.AddOption(&dhcpv6.OptIANA{IaId: [4]byte{1, 1, 1, 1}})
		desc += " IA_NA"
	}
	if t.Draw(3) == 0 {
		m.AddOption(dhcpv6.OptRequestedOption(dhcpv6.OptionDNSRecursiveNameServer, dhcpv6.OptionBootfileURL, dhcpv6.OptionBootfileParam, dhcpv6.OptionDomainSearchList))
	}
	if t.Draw(8) == 0 {
		m.AddOption(&dhcpv6.OptionGeneric{OptionCode: dhcpv6.OptionClientID, OptionData: []byte{}}) // second, empty client id
		desc += " dup-empty-clientid"
	}
	var out dhcpv6.DHCPv6 = m
	depth := []int{0, 0, 0, 1, 2, 3, 6, 33}[t.Pick(8)]
	if t.Draw(40) == 0 {
		depth = 1200
	}
	cc := *c
	cc.Relays = nil
	if depth > 0 {
		ls := drawRelays(t, min(depth, 6), &cc)
		for len(ls) < depth {
			ls = append(ls, RelayLayer{Link: make(net.IP, 16), Peer: make(net.IP, 16), HopCount: uint8(len(ls))})
		}
		out = encapsulate(m, ls)
		desc += fmt.Sprintf(" relay-depth=%d", depth)
		if t.Draw(6) == 0 {
			out.(*dhcpv6.RelayMessage).Options.Del(dhcpv6.OptionRelayMsg)
			desc += " no-relay-msg"
		}
		if t.Draw(6) == 0 {
			out.(*dhcpv6.RelayMessage).MessageType = dhcpv6.MessageTypeRelayReply
			desc += " outer-relay-reply"
		}
	}
	b := out.ToBytes()
	if t.Draw(6) == 0 && len(b) > 8 {
		// rewrite the first option length to point beyond the end
		off := 4
		if depth > 0 {
			off = 34
		}
		if off+4 <= len(b) {
			binary.BigEndian.PutUint16(b[off+2:], uint16(t.Draw(1<<16)))
			desc += " first-option-length-rewritten"
		}
	}
	return b, c.String() + " " + desc
}

func (s *hostile) OnReply(w *World, dg *DG, r *Reply) {
	if dg.V6 {
		checkC12(w, dg, r)
	} else {
		checkC11(w, dg, r)
	}
}

// Finish: bounded liveness once the hostile traffic has stopped.
func (s *hostile) Finish(w *World) {
	w.FaultsOn = false
	w.Sim.Disarm()
	if n := w.Sim.HeldLocks(); n != 0 {
		w.Violate("C01", "lock-left-held", "the server is idle but %d lock(s) are still held", n)
		return
	}
	for _, dg := range w.DGs {
		if dg.Delivered && !dg.Handled && !dg.Killed && !(w.Sim.PortQueued(dg.Port, dg.ID) && !w.Sim.PortOpen(dg.Port)) {
			w.Violate("C01", "handler-never-finished", "dg%d (%s) was delivered but its handler never finished although the server is idle", dg.ID, dg.Kind)
			return
		}
	}
	for li, ls := range w.LSpecs {
		link := ls.IfIndex
		if link == 0 {
			link = 2
		}
		if ls.V6 && w.Has6 {
			for _, c := range []*Client6{s.c6[0], newClient6(w.T, 50+li, link)} {
				cc := *c
				cc.Link = link
				m := w.build6(&cc, dhcpv6.MessageTypeSolicit)
				m.AddOption(&dhcpv6.OptIAPD{IaId: [4]byte{5, 5, 5, byte(li)}})
				if dg := w.send6(&cc, m, "SOLICIT(liveness)"); dg != nil {
					s.final = append(s.final, dg)
				}
			}
		} else if !ls.V6 && w.Has4 {
			for _, c := range []*Client4{s.c4[0], {ID: 60 + li, MAC: net.HardwareAddr{0xee, 0, 0, 0, 0, byte(li)}, Bcast: true}} {
				cc := *c
				cc.Link = link
				if dg := w.send4(&cc, w.build4(&cc, dhcpv4.MessageTypeDiscover), "DISCOVER(liveness)"); dg != nil {
					s.final = append(s.final, dg)
				}
			}
		}
	}
	start := w.Sim.Steps
	w.afterRun(w.Sim.Run())
	for _, dg := range s.final {
		if dg.Delivered && !dg.Handled {
			w.Violate("C01", "no-progress-after-hostile-traffic", "after the hostile traffic stopped, a well-formed %s was delivered but never handled (%d scheduler steps later the server is idle)", dg.Kind, w.Sim.Steps-start)
			return
		}
	}
	if n := w.Sim.HeldLocks(); n != 0 {
		w.Violate("C01", "lock-left-held", "the server is idle but %d lock(s) are still held", n)
	}
	w.Probe("hostile.liveness_ok")
}
