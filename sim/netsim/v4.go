package netsim

import (
	"fmt"
	"net"

	"github.com/insomniacslk/dhcp/dhcpv4"
	"github.com/insomniacslk/dhcp/iana"

	"github.com/coredhcp/coredhcp/zzverif/simrt"
)

// Client4 is a DHCPv4 client identity; what it sends is decided by the scenario.
type Client4 struct {
	ID       int
	MAC      net.HardwareAddr
	HType    iana.HWType
	Hostname *string
	ClientID []byte
	PRL      []dhcpv4.OptionCode
	HasPRL   bool
	Bcast    bool
	Link     int    // interface index of the link the client (or its relay) is on
	Giaddr   net.IP // relayed when set
	Ciaddr   net.IP
	Relay82  []byte
	Extra    []dhcpv4.Option
	Heard    int
	Sent     int
}

func (c *Client4) String() string { return fmt.Sprintf("c%d[%s]", c.ID, c.MAC) }

// build4 constructs a request without touching any real randomness.
func (w *World) build4(c *Client4, mt dhcpv4.MessageType) *dhcpv4.DHCPv4 {
	m := &dhcpv4.DHCPv4{
		OpCode:        dhcpv4.OpcodeBootRequest,
		HWType:        c.HType,
		ClientHWAddr:  append(net.HardwareAddr(nil), c.MAC...),
		ClientIPAddr:  net.IPv4zero,
		YourIPAddr:    net.IPv4zero,
		ServerIPAddr:  net.IPv4zero,
		GatewayIPAddr: net.IPv4zero,
		Options:       make(dhcpv4.Options),
	}
	if c.HType == 0 {
		m.HWType = iana.HWTypeEthernet
	}
	w.T.Bytes(m.TransactionID[:])
	if mt != 0 {
		m.UpdateOption(dhcpv4.OptMessageType(mt))
	}
	if c.Bcast {
		m.SetBroadcast()
	}
	if c.Ciaddr != nil {
		m.ClientIPAddr = c.Ciaddr
	}
	if c.Giaddr != nil {
		m.GatewayIPAddr = c.Giaddr
		m.HopCount = 1
		if c.Relay82 != nil {
			m.UpdateOption(dhcpv4.OptGeneric(dhcpv4.OptionRelayAgentInformation, c.Relay82))
		}
	}
	if c.Hostname != nil {
		m.UpdateOption(dhcpv4.OptHostName(*c.Hostname))
	}
	if c.ClientID != nil {
		m.UpdateOption(dhcpv4.OptClientIdentifier(c.ClientID))
	}
	if c.HasPRL {
		m.UpdateOption(dhcpv4.OptParameterRequestList(c.PRL...))
	}
	for _, o := range c.Extra {
		m.UpdateOption(o)
	}
	return m
}

// listener4For picks the listener a datagram from link reaches.
func (w *World) listenerFor(v6 bool, link int) int {
	for i, l := range w.LSpecs {
		if l.V6 == v6 && (l.IfIndex == 0 || l.IfIndex == link) {
			return i
		}
	}
	return -1
}

// src4 is the source address the server sees for a client's datagram.
func src4(c *Client4) net.UDPAddr {
	switch {
	case c.Giaddr != nil:
		return net.UDPAddr{IP: c.Giaddr, Port: 67}
	case c.Ciaddr != nil && !c.Ciaddr.IsUnspecified():
		return net.UDPAddr{IP: c.Ciaddr, Port: 68}
	}
	return net.UDPAddr{IP: net.IPv4zero, Port: 68}
}

func (w *World) send4(c *Client4, m *dhcpv4.DHCPv4, kind string) *DG {
	li := w.listenerFor(false, c.Link)
	if li < 0 {
		return nil
	}
	c.Sent++
	ifx := c.Link
	return w.Send(li, m.ToBytes(), src4(c), ifx, fmt.Sprintf("%s %s xid=%x", c, kind, m.TransactionID[:]), c.ID, nil)
}

// drawMAC draws a hardware address of the given length.
func drawMAC(t *simrt.Tape, n int, id int) net.HardwareAddr {
	m := make(net.HardwareAddr, n)
	t.Bytes(m)
	if n >= 2 {
		m[0] &^= 1 // not multicast
		m[n-1] = byte(id)
	}
	if n == 1 {
		m[0] = byte(id)
	}
	return m
}

var hostnamePool = []string{"", "host", "007", "1e5", "0x10", "12.50", "-3", " 42", "null", "a b", "h\x00x", "caf\xc3\xa9", "\xff\xfe", "99999999999999999999", "1e400", "NaN", "Infinity", "0", "+5", "3.", ".5", "'; drop table leases4; --"}

func drawHostname(t *simrt.Tape) *string {
	switch t.Draw(4) {
	case 0:
		return nil
	case 1:
		b := make([]byte, t.Range(0, 12))
		t.Bytes(b)
		s := string(b)
		return &s
	default:
		s := hostnamePool[t.Pick(len(hostnamePool))]
		return &s
	}
}

func ip4(a uint32) net.IP {
	return net.IP{byte(a >> 24), byte(a >> 16), byte(a >> 8), byte(a)}
}

func ip4u(ip net.IP) uint32 {
	v := ip.To4()
	if v == nil {
		return 0
	}
	return uint32(v[0])<<24 | uint32(v[1])<<16 | uint32(v[2])<<8 | uint32(v[3])
}

func defaultIfaces(n int) []simrt.Iface {
	var r []simrt.Iface
	for i := 1; i <= n; i++ {
		r = append(r, simrt.Iface{Index: i + 1, Name: fmt.Sprintf("sim%d", i), MAC: net.HardwareAddr{0x02, 0, 0, 0, 0, byte(i)}, Flags: net.FlagUp | net.FlagBroadcast | net.FlagMulticast, MTU: 1500,
			Addrs: []net.IP{ifaceAddr4(i + 1), ifaceAddr6(i + 1), ifaceLL6(i + 1)}})
	}
	return r
}

// addresses configured on the simulated interface with the given index
func ifaceAddr4(index int) net.IP { return net.IP{10, 0, byte(index - 2), 1}.To4() }
func ifaceAddr6(index int) net.IP { return net.ParseIP(fmt.Sprintf("2001:db8:%x::1", index)) }
func ifaceLL6(index int) net.IP   { return net.ParseIP(fmt.Sprintf("fe80::%x", index)) }
