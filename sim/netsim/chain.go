package netsim

import (
	"fmt"
	"strings"

	"github.com/insomniacslk/dhcp/dhcpv4"
	"github.com/insomniacslk/dhcp/dhcpv6"

	"github.com/coredhcp/coredhcp/zzverif/simrt"
)

// chain: C13 — the handlers instantiated are the listed plugins that support the
// protocol, in file order; they run in that order until one stops the chain.
// Start-up goes through the real config.Load and LoadPlugins.
type chainSc struct {
	baseScenario
	c4, c6     []chainItem
	has4, has6 bool
	wantFail   string
	clients4   []*Client4
	clients6   []*Client6
	checked    int
}

type chainItem struct {
	Name string
	Args []string
	Sup4 bool
	Sup6 bool
	Beh  string // behaviour of synthetic plugins, "builtin" for built-ins, "unknown"
	ID   string
}

func init() { registerScenario("chain", func() scenario { return &chainSc{} }) }

func (s *chainSc) Name() string { return "chain" }

func drawChainItem(t *simrt.Tape, idx int, v6 bool, allowBad bool) chainItem {
	id := string(rune('a' + idx))
	switch t.Draw(10) {
	case 0, 1:
		// built-in pass-through plugins
		if v6 {
			switch t.Draw(3) {
			case 0:
				return chainItem{Name: "dns", Args: []string{"2001:db8::53"}, Sup4: true, Sup6: true, Beh: "builtin"}
			case 1:
				return chainItem{Name: "searchdomains", Args: []string{"x.example"}, Sup4: true, Sup6: true, Beh: "builtin"}
			default:
				return chainItem{Name: "sleep", Args: []string{"1ms"}, Sup4: true, Sup6: true, Beh: "builtin"}
			}
		}
		switch t.Draw(6) {
		case 0:
			return chainItem{Name: "netmask", Args: []string{"255.255.255.0"}, Sup4: true, Beh: "builtin"}
		case 1:
			return chainItem{Name: "lease_time", Args: []string{"60s"}, Sup4: true, Beh: "builtin"}
		case 2:
			return chainItem{Name: "mtu", Args: []string{"1500"}, Sup4: true, Beh: "builtin"}
		case 3:
			return chainItem{Name: "router", Args: []string{"10.0.0.1"}, Sup4: true, Beh: "builtin"}
		case 4:
			return chainItem{Name: "dns", Args: []string{"10.0.0.2"}, Sup4: true, Sup6: true, Beh: "builtin"}
		default:
			return chainItem{Name: "sleep", Args: []string{"1ms"}, Sup4: true, Sup6: true, Beh: "builtin"}
		}
	case 2:
		if allowBad && t.Draw(3) == 0 {
			return chainItem{Name: "nosuchplugin", Args: []string{"x"}, Beh: "unknown"}
		}
	case 3:
		if allowBad && t.Draw(2) == 0 {
			// built-in plugins whose setup reports an error (some of them together with a non-nil handler)
			bad := []chainItem{
				{Name: "dns", Args: []string{"not-an-ip"}, Sup4: true, Sup6: true, Beh: "failsetup", ID: "dns"},
				{Name: "dns", Args: []string{"10.0.0.2", "also-bad"}, Sup4: true, Sup6: true, Beh: "failsetup", ID: "dns"},
				{Name: "searchdomains", Args: []string{"ok.example"}, Sup4: true, Sup6: true, Beh: "builtin"},
				{Name: "sleep", Args: []string{"soon"}, Sup4: true, Sup6: true, Beh: "failsetup", ID: "sleep"},
			}
			if !v6 {
				bad = append(bad, chainItem{Name: "router", Args: []string{"x"}, Sup4: true, Beh: "failsetup", ID: "router"},
					chainItem{Name: "staticroute", Args: []string{"10.0.0.0/8"}, Sup4: true, Beh: "failsetup", ID: "staticroute"},
					chainItem{Name: "netmask", Args: []string{"255.0.255.0"}, Sup4: true, Beh: "failsetup", ID: "netmask"})
			}
			return bad[t.Pick(len(bad))]
		}
	}
	names := []struct {
		n      string
		s4, s6 bool
	}{{"zz_syn", true, true}, {"zz_syn4", true, false}, {"zz_syn6", false, true}}
	n := names[t.Pick(3)]
	behs := []string{"pass", "modify", "replace", "modify", "replace", "stop", "stopnil"}
	beh := behs[t.Pick(len(behs))]
	if allowBad && t.Draw(12) == 0 {
		beh = []string{"failsetup", "nilhandler"}[t.Pick(2)]
	}
	return chainItem{Name: n.n, Args: []string{id, beh}, Sup4: n.s4, Sup6: n.s6, Beh: beh, ID: id}
}

func (s *chainSc) Plan(w *World) {
	t := w.T
	w.Ifaces = defaultIfaces(2)
	switch t.Draw(3) {
	case 0:
		s.has4 = true
	case 1:
		s.has6 = true
	default:
		s.has4, s.has6 = true, true
	}
	allowBad := t.Draw(3) == 0
	if s.has4 {
		for i, n := 0, t.Range(0, 5); i < n; i++ {
			s.c4 = append(s.c4, drawChainItem(t, i, false, allowBad))
		}
	}
	if s.has6 {
		for i, n := 0, t.Range(0, 5); i < n; i++ {
			s.c6 = append(s.c6, drawChainItem(t, 10+i, true, allowBad))
		}
	}
	// expected start-up result: LoadPlugins walks server6 first, then server4
	walk := func(items []chainItem, v6 bool) {
		for _, it := range items {
			if s.wantFail != "" {
				return
			}
			if it.Beh == "unknown" {
				s.wantFail = "unknown plugin " + it.Name
				return
			}
			if (v6 && !it.Sup6) || (!v6 && !it.Sup4) {
				continue
			}
			if it.Beh == "failsetup" || it.Beh == "nilhandler" {
				s.wantFail = it.Beh + " of " + it.Name + " " + it.ID
				w.Sim.FaultsFired[simrt.FSetupFail]++
				return
			}
		}
	}
	if s.has6 {
		walk(s.c6, true)
	}
	if s.has4 {
		walk(s.c4, false)
	}
	// configuration: through the real config.Load when every configured protocol lists at least one plugin
	useFile := (!s.has4 || len(s.c4) > 0) && (!s.has6 || len(s.c6) > 0) && t.Draw(4) != 0
	toConf := func(items []chainItem) []PluginConf {
		var r []PluginConf
		for _, it := range items {
			r = append(r, PluginConf{it.Name, it.Args})
		}
		return r
	}
	w.Has4, w.Has6 = s.has4, s.has6
	w.Chain4, w.Chain6 = toConf(s.c4), toConf(s.c6)
	nl4, nl6 := t.Range(1, 3), t.Range(1, 3)
	if useFile {
		var sb strings.Builder
		sect := func(name string, items []chainItem, nl int, v6 bool) {
			sb.WriteString(name + ":\n  listen:\n")
			for i := 0; i < nl; i++ {
				switch {
				case i == 0 && t.Draw(2) == 0:
					if v6 {
						sb.WriteString("    - \"[::]:547\"\n")
					} else {
						sb.WriteString("    - \"0.0.0.0:67\"\n")
					}
				default:
					sb.WriteString(fmt.Sprintf("    - \"%%sim%d\"\n", 1+i%2))
				}
			}
			sb.WriteString("  plugins:\n")
			for _, it := range items {
				sb.WriteString("    - " + it.Name + ": " + strings.Join(it.Args, " ") + "\n")
			}
		}
		if s.has6 {
			sect("server6", s.c6, nl6, true)
		}
		if s.has4 {
			sect("server4", s.c4, nl4, false)
		}
		w.UseConfigFile = true
		w.ConfigText = sb.String()
		w.Probe("chain.config_file")
	} else {
		for i := 0; i < nl6 && s.has6; i++ {
			w.LSpecs = append(w.LSpecs, ListenerSpec{V6: true, IfIndex: []int{0, 2, 3}[i]})
		}
		for i := 0; i < nl4 && s.has4; i++ {
			w.LSpecs = append(w.LSpecs, ListenerSpec{V6: false, IfIndex: []int{0, 2, 3}[i]})
		}
	}
	for i := 0; i < 3; i++ {
		c := &Client4{ID: i, MAC: drawMAC(t, 6, i+1), Link: 2 + int(t.Draw(2)), Bcast: true}
		s.clients4 = append(s.clients4, c)
		c6 := newClient6(t, i, 2+int(t.Draw(2)))
		if t.Draw(2) == 1 {
			c6.Relays = drawRelays(t, t.Range(1, 3), c6)
		}
		s.clients6 = append(s.clients6, c6)
	}
	w.Sim.SetPoolReuse(int(t.Draw(3)))
	if !w.UseConfigFile && s.wantFail == "" && t.Draw(3) == 0 {
		// clients that are already sending while the server starts: a socket that is bound receives, and whatever
		// answers must be the configured chain
		for i, k := 0, t.Range(1, 4); i < k; i++ {
			i := i
			v6 := s.has6 && (!s.has4 || t.Draw(2) == 1)
			w.Sim.After(int64(t.Draw(4))*1000, func() { s.one(w, i, v6) })
		}
	}
}

// one sends one well-formed client message.
func (s *chainSc) one(w *World, i int, v6 bool) {
	t := w.T
	if v6 {
		c := s.clients6[i%3]
		mt := []dhcpv6.MessageType{dhcpv6.MessageTypeSolicit, dhcpv6.MessageTypeInformationRequest, dhcpv6.MessageTypeRequest, dhcpv6.MessageTypeRebind}[t.Pick(4)]
		m := w.build6(c, mt)
		if mt == dhcpv6.MessageTypeSolicit && t.Draw(2) == 1 {
			m.AddOption(&dhcpv6.OptionGeneric{OptionCode: dhcpv6.OptionRapidCommit})
		}
		w.send6(c, m, mt.String())
		return
	}
	c := s.clients4[i%3]
	mt := dhcpv4.MessageTypeDiscover
	if t.Draw(2) == 1 {
		mt = dhcpv4.MessageTypeRequest
	}
	w.send4(c, w.build4(c, mt), mt.String())
}

func (s *chainSc) OnStarted(w *World, inc int, err string) {
	if s.wantFail != "" {
		if err == "" {
			w.Violate("C13", "startup-should-fail", "start-up succeeded although the configuration has %s", s.wantFail)
		} else {
			w.Probe("chain.startup_rejected")
		}
		return
	}
	if err != "" {
		w.Violate("C13", "startup-failed", "start-up failed on a configuration of known plugins whose setups succeed: %s\n%s", err, w.ConfigText)
		return
	}
	// traffic
	t := w.T
	n := t.Range(2, 14)
	var at int64
	for i := 0; i < n; i++ {
		if t.Draw(2) == 0 {
			at += int64(t.Draw(50)) * 1e6
		}
		v6 := s.has6 && (!s.has4 || t.Draw(2) == 1)
		i := i
		w.Sim.After(at, func() { s.one(w, i, v6) })
	}
}

func (s *chainSc) OnHandled(w *World, dg *DG) {
	if dg.ParseErr != nil {
		return
	}
	items := s.c4
	if dg.V6 {
		items = s.c6
	}
	// expected invocations
	type exp struct {
		name, args string
	}
	var want []exp
	trail := ""
	nilResp := false
	for _, it := range items {
		if (dg.V6 && !it.Sup6) || (!dg.V6 && !it.Sup4) {
			continue
		}
		want = append(want, exp{it.Name, strings.Join(it.Args, " ")})
		stop := false
		switch it.Beh {
		case "modify", "replace":
			trail += it.ID + ","
		case "stop":
			trail += it.ID + ","
			stop = true
		case "stopnil":
			nilResp = true
			stop = true
		}
		if stop {
			break
		}
	}
	got := dg.Invs
	desc := func() string {
		var sb strings.Builder
		for _, g := range got {
			fmt.Fprintf(&sb, " [%s %s nil=%v stop=%v]", g.Plugin, g.Args, g.RespNil, g.Stop)
		}
		return sb.String()
	}
	if len(got) != len(want) {
		w.Violate("C13", "invocation-count", "dg%d (%s): %d handlers ran, the configuration implies %d; ran:%s; chain: %v", dg.ID, dg.Kind, len(got), len(want), desc(), items)
		return
	}
	for i := range want {
		if got[i].Plugin != want[i].name || got[i].Args != want[i].args {
			w.Violate("C13", "invocation-order", "dg%d (%s): handler #%d is %s %s, expected %s %s; ran:%s", dg.ID, dg.Kind, i, got[i].Plugin, got[i].Args, want[i].name, want[i].args, desc())
			return
		}
		wantSum := uint64(0)
		if dg.V6 && dg.Req6 != nil {
			wantSum = sum6(dg.Req6)
		} else if dg.Req4 != nil {
			wantSum = sum4(dg.Req4)
		}
		if wantSum != 0 && got[i].ReqSum != wantSum {
			w.Violate("C13", "request-not-original", "dg%d (%s): handler #%d (%s) received a request object that is not the datagram the server received (for a relayed message: not the outer Relay-Forward)", dg.ID, dg.Kind, i, got[i].Plugin)
		}
		if got[i].ReqPtr != got[0].ReqPtr {
			w.Violate("C13", "request-identity", "dg%d (%s): handler #%d did not receive the original request object", dg.ID, dg.Kind, i)
		}
		if i > 0 && got[i].InPtr != got[i-1].OutPtr {
			w.Violate("C13", "response-threading", "dg%d (%s): handler #%d (%s %s) did not receive the response returned by its predecessor", dg.ID, dg.Kind, i, got[i].Plugin, got[i].Args)
		}
		if i > 0 && got[i-1].Stop {
			w.Violate("C13", "ran-after-stop", "dg%d (%s): handler #%d ran after its predecessor signalled stop", dg.ID, dg.Kind, i)
		}
	}
	if nilResp {
		if len(dg.Replies) != 0 {
			w.Violate("C13", "sent-after-nil", "dg%d (%s): the chain ended with a nil response but a reply was sent", dg.ID, dg.Kind)
		} else {
			w.Probe("chain.nil_response_not_sent")
		}
		return
	}
	if len(dg.Replies) != 1 {
		w.Violate("C13", "reply-count", "dg%d (%s): %d replies were sent, expected one; ran:%s", dg.ID, dg.Kind, len(dg.Replies), desc())
		return
	}
	r := dg.Replies[0]
	gotTrail := ""
	switch {
	case r.Msg4 != nil:
		gotTrail = trail4(r.Msg4)
	case r.Msg6 != nil:
		if inner, err := r.Msg6.GetInnerMessage(); err == nil {
			gotTrail = trail6(inner)
		}
	default:
		w.Violate("C13", "reply-unparseable", "dg%d: the reply does not parse: %v", dg.ID, r.ParseErr)
		return
	}
	if gotTrail != trail {
		w.Violate("C13", "wrong-response-sent", "dg%d (%s): the reply carries trail %q, the response returned last carries %q; ran:%s", dg.ID, dg.Kind, gotTrail, trail, desc())
		return
	}
	s.checked++
	w.Probe("chain.exchange_checked")
	if len(want) == 0 {
		w.Probe("chain.empty_chain")
	}
}
