package netsim

import (
	"github.com/insomniacslk/dhcp/dhcpv4"

	"github.com/coredhcp/coredhcp/zzverif/simrt"
)

// racecheck is a self-test of the machinery (DESIGN.md §7): two synthetic plugins share a counter.
// "racy" touches it without synchronisation, "locked" under a simrt.Mutex. On the -race binary the first
// must be reported by the Go race detector even in a serial schedule, the second must not.
type racecheck struct {
	baseScenario
	mode string
}

func init() {
	registerScenario("racecheck-racy", func() scenario { return &racecheck{mode: "racy"} })
	registerScenario("racecheck-locked", func() scenario { return &racecheck{mode: "locked"} })
}

func (s *racecheck) Name() string { return "racecheck-" + s.mode }

var sharedCounter int
var sharedMu simrt.Mutex

func (s *racecheck) Plan(w *World) {
	w.Has4 = true
	w.Chain4 = []PluginConf{{"zz_syn4", []string{"r", s.mode}}}
	w.Ifaces = defaultIfaces(1)
	w.LSpecs = []ListenerSpec{{IfIndex: 0}}
	w.Sim.Cfg = simrt.Config{MaxTaskYields: 100000, MaxSteps: 1000000} // strictly serial schedule
	for i := 0; i < 4; i++ {
		c := &Client4{ID: i, MAC: drawMAC(w.T, 6, i+1), Link: 2, Bcast: true}
		w.Sim.After(int64(i)*1e9, func() { w.send4(c, w.build4(c, dhcpv4.MessageTypeDiscover), "DISCOVER") })
	}
}
