package netsim

import (
	"encoding/binary"
	"errors"
	"net"
)

// L2Frame is a raw Ethernet/IPv4/UDP frame as built by the real sendEthernet, parsed independently of gopacket.
type L2Frame struct {
	DstMAC, SrcMAC   net.HardwareAddr
	EtherType        uint16
	SrcIP, DstIP     net.IP
	Proto            uint8
	TTL              uint8
	SrcPort, DstPort int
	UDPLen           int
	IPLen            int
	Payload          []byte
	IPChecksumOK     bool
	UDPChecksumOK    bool
}

func csum(b []byte, init uint32) uint16 {
	s := init
	for i := 0; i+1 < len(b); i += 2 {
		s += uint32(binary.BigEndian.Uint16(b[i:]))
	}
	if len(b)%2 == 1 {
		s += uint32(b[len(b)-1]) << 8
	}
	for s>>16 != 0 {
		s = (s & 0xffff) + s>>16
	}
	return ^uint16(s)
}

func parseL2(b []byte) (*L2Frame, error) {
	if len(b) < 14+20+8 {
		return nil, errors.New("frame too short")
	}
	f := &L2Frame{DstMAC: net.HardwareAddr(b[0:6]), SrcMAC: net.HardwareAddr(b[6:12]), EtherType: binary.BigEndian.Uint16(b[12:14])}
	ip := b[14:]
	if ip[0]>>4 != 4 {
		return nil, errors.New("not IPv4")
	}
	ihl := int(ip[0]&0xf) * 4
	if ihl < 20 || len(ip) < ihl+8 {
		return nil, errors.New("bad IHL")
	}
	f.IPLen = int(binary.BigEndian.Uint16(ip[2:4]))
	f.TTL = ip[8]
	f.Proto = ip[9]
	f.SrcIP = net.IP(ip[12:16])
	f.DstIP = net.IP(ip[16:20])
	f.IPChecksumOK = csum(ip[:ihl], 0) == 0
	udp := ip[ihl:]
	f.SrcPort = int(binary.BigEndian.Uint16(udp[0:2]))
	f.DstPort = int(binary.BigEndian.Uint16(udp[2:4]))
	f.UDPLen = int(binary.BigEndian.Uint16(udp[4:6]))
	if f.UDPLen < 8 || f.UDPLen > len(udp) {
		return nil, errors.New("bad UDP length")
	}
	f.Payload = udp[8:f.UDPLen]
	// pseudo header
	var ps uint32
	ps += uint32(binary.BigEndian.Uint16(ip[12:14])) + uint32(binary.BigEndian.Uint16(ip[14:16]))
	ps += uint32(binary.BigEndian.Uint16(ip[16:18])) + uint32(binary.BigEndian.Uint16(ip[18:20]))
	ps += uint32(f.Proto) + uint32(f.UDPLen)
	f.UDPChecksumOK = binary.BigEndian.Uint16(udp[6:8]) == 0 || csum(udp[:f.UDPLen], ps) == 0
	return f, nil
}
