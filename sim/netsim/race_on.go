//go:build race

package netsim

const raceEnabled = true
