package netsim

import (
	"database/sql"
	"fmt"
	"net"
	"os"
	"os/exec"
	"path/filepath"
	"sort"
	"strconv"
	"strings"
	"time"

	"github.com/insomniacslk/dhcp/dhcpv4"
	_ "github.com/mattn/go-sqlite3"

	"github.com/coredhcp/coredhcp/handler"
	"github.com/coredhcp/coredhcp/plugins"
	"github.com/coredhcp/coredhcp/zzverif/simrt"
)

// lease4: the range plugin behind the real server, with crash/restart on the
// same sqlite file. Oracles for C02 (leases) and C03 (lease database).
type lease4 struct {
	baseScenario
	name      string
	crashy    bool
	sqlFaults bool

	start, end uint32
	n          int
	lease      time.Duration
	dbPath     string
	clients    []*Client4

	told          map[string]net.IP // mac string -> first address told
	owner         map[uint32]string // address -> mac string
	toldAt        map[string]int64
	firstSeen     map[string]int64 // first delivery of any request of that mac
	promise       map[string]int64 // latest promised lease end (sim ns) per mac
	volatile      map[string]bool  // save failed (fault-on variant only)
	faultedDG     map[int64]bool   // datagrams one of whose store calls was made to fail
	stored        map[string]storedRow
	noReply       []*DG
	crashesLeft   int
	snapshots     int
	rangeSites    []bool
	dbReads       int
	lastClock     map[int64]int64 // dg id -> first clock read by its handler
	faultsAtStart int64
	faultTagsSeen int
}

type storedRow struct {
	ip     net.IP
	expiry int64
	raw    string
}

func init() {
	registerScenario("lease4", func() scenario { return &lease4{name: "lease4"} })
	registerScenario("lease4-crash", func() scenario { return &lease4{name: "lease4-crash", crashy: true} })
	registerScenario("lease4-sqlfault", func() scenario { return &lease4{name: "lease4-sqlfault", sqlFaults: true} })
}

func (s *lease4) Name() string { return s.name }

func macKey(m net.HardwareAddr) string { return m.String() }

func (s *lease4) Plan(w *World) {
	t := w.T
	s.told = map[string]net.IP{}
	s.owner = map[uint32]string{}
	s.toldAt = map[string]int64{}
	s.firstSeen = map[string]int64{}
	s.promise = map[string]int64{}
	s.volatile = map[string]bool{}
	s.faultedDG = map[int64]bool{}
	s.lastClock = map[int64]int64{}
	sizes := []int{2, 3, 4, 5, 8, 16, 63, 64, 65, 130}
	if t.Draw(3) == 0 {
		s.n = t.Range(2, 130)
	} else {
		s.n = sizes[t.Pick(len(sizes))]
	}
	switch t.Draw(4) {
	case 0:
		s.start = 0x0a000064
	case 1:
		s.start = 0xffffffff - uint32(s.n-1) // ends at 255.255.255.255
	case 2:
		s.start = 0xc0a800fa // crosses x.x.0.255 -> x.x.1.0
	default:
		s.start = 0xac100000 + uint32(t.Draw(1<<16))
	}
	s.end = s.start + uint32(s.n-1)
	leases := []string{"10s", "60s", "1h", "2h", "90s500ms", "1m0.4s", "45s"}
	ls := leases[t.Pick(len(leases))]
	s.lease, _ = time.ParseDuration(ls)
	s.dbPath = filepath.Join(w.Dir, "leases.sqlite3")
	w.Has4 = true
	if t.Draw(2) == 1 {
		w.Chain4 = append(w.Chain4, PluginConf{"server_id", []string{"10.0.0.1"}})
	}
	w.Chain4 = append(w.Chain4, PluginConf{"range", []string{s.dbPath, ip4(s.start).String(), ip4(s.end).String(), ls}})
	if t.Draw(2) == 1 {
		w.Chain4 = append(w.Chain4, PluginConf{"lease_time", []string{"123s"}})
	}
	if t.Draw(2) == 1 {
		w.Chain4 = append(w.Chain4, PluginConf{"netmask", []string{"255.255.0.0"}})
	}
	w.Ifaces = defaultIfaces(2)
	if t.Draw(2) == 0 {
		w.LSpecs = []ListenerSpec{{V6: false, IfIndex: 0}}
	} else {
		w.LSpecs = []ListenerSpec{{V6: false, IfIndex: 2}, {V6: false, IfIndex: 3}}
	}
	// clients
	nc := t.Range(1, 12)
	if t.Draw(3) == 0 && s.n < 12 {
		nc = s.n + t.Range(1, 4) // more clients than addresses
	}
	for i := 0; i < nc; i++ {
		ml := 6
		if t.Draw(4) == 0 {
			ml = t.Range(0, 16)
		} else if t.Draw(10) == 0 {
			ml = 8
		}
		c := &Client4{ID: i, MAC: drawMAC(t, ml, i+1), Link: 2 + int(t.Draw(2)), Bcast: t.Draw(2) == 1, Hostname: drawHostname(t)}
		if t.Draw(4) == 0 {
			c.Giaddr = net.IP{10, 9, byte(i), 1}
		}
		if ml != 6 {
			c.Bcast = true // a link-level unicast needs a 6-byte hardware address
		}
		s.clients = append(s.clients, c)
	}
	// same-MAC twins: two actors sharing one hardware address
	if nc >= 2 && t.Draw(4) == 0 {
		s.clients[1].MAC = append(net.HardwareAddr(nil), s.clients[0].MAC...)
	}
	// traffic: messages at drawn times, in bursts
	w.FaultsOn = t.Draw(2) == 1
	if w.FaultsOn {
		w.DropPct = int(t.Draw(15))
		w.DupPct = int(t.Draw(20))
		w.DelayMaxNs = int64(t.Draw(3)) * 2e9
	}
	horizon := int64(t.Range(1, 40)) * 1e9
	if t.Draw(4) == 0 {
		horizon = int64(t.Range(1, 72)) * 3600e9 // long histories: leases expire, clock far ahead
	}
	nmsg := t.Range(2, 40)
	var burstAt int64
	for i := 0; i < nmsg; i++ {
		c := s.clients[t.Pick(len(s.clients))]
		mt := dhcpv4.MessageTypeDiscover
		if t.Draw(2) == 1 {
			mt = dhcpv4.MessageTypeRequest
		}
		var at int64
		if i > 0 && t.Draw(2) == 1 {
			at = burstAt + int64(t.Draw(50))*1000 // burst: within 50 microseconds of the previous one
		} else {
			at = int64(t.Draw(uint32(horizon/1e6))) * 1e6
			burstAt = at
		}
		w.Sim.After(at, func() {
			if c.Hostname != nil && t.Draw(8) == 0 {
				c.Hostname = drawHostname(t)
			}
			m := w.build4(c, mt)
			w.send4(c, m, mt.String())
		})
	}
	// crashes
	s.rangeSites = make([]bool, len(simrt.SiteTable))
	for i, n := range simrt.SiteTable {
		if strings.HasPrefix(n, "plugins/range/") || strings.HasPrefix(n, "plugins/allocators/") {
			s.rangeSites[i] = true
		}
	}
	if w.FaultsOn || s.crashy {
		s.crashesLeft = t.Range(0, 3)
		if s.crashy {
			s.crashesLeft = t.Range(1, 6)
		}
		for i := 0; i < s.crashesLeft; i++ {
			at := int64(t.Draw(uint32(horizon/1e6))) * 1e6
			w.Sim.After(at, func() { s.armCrash(w) })
		}
	}
	if s.sqlFaults {
		w.FaultsOn = true
		k := t.Range(1, 4)
		for i := 0; i < k; i++ {
			at := int64(t.Draw(uint32(horizon/1e6))) * 1e6
			w.Sim.After(at, func() { w.Sim.ArmSQLFault(int64(1+t.Draw(4)), int(t.Draw(3))) })
		}
	}
	// snapshot restarts (C03: every prefix of the history is a crash point)
	s.snapshots = t.Range(0, 3)
	for i := 0; i < s.snapshots; i++ {
		at := int64(t.Draw(uint32(horizon/1e6))) * 1e6
		w.Sim.After(at, func() { s.snapshotRestart(w, "scheduled") })
	}
	// stalls and time passing while handlers are in flight
	if w.FaultsOn && t.Draw(2) == 1 {
		w.Sim.Cfg.TimeSkip = 2
		w.Sim.Cfg.MaxTimeSkipNs = 600e9
		at := int64(t.Draw(uint32(horizon/1e6))) * 1e6
		w.Sim.After(at, func() {
			w.Sim.ArmStall(w.Sim.Steps+1+int64(t.Draw(300)), int64(1+t.Draw(600))*1e9, nil)
		})
	}
	w.Sim.SetPoolReuse(int(t.Draw(3)))
}

func (s *lease4) armCrash(w *World) {
	if w.Inc >= 10 || w.Sim.CrashArmed() || !w.Up() && w.T.Draw(2) == 0 {
		return
	}
	var sites []bool
	if w.T.Draw(2) == 1 {
		sites = s.rangeSites
	}
	w.Sim.ArmCrash(w.Sim.Steps+1+int64(w.T.Draw(400)), sites, w.onCrash)
}

func (s *lease4) OnCrash(w *World, inc int, t *simrt.Task) {
	if t.Kind == "main" {
		w.Sim.FaultsFired[simrt.FCrashSetup]++
		w.Probe("crash.during_setup")
	}
	if strings.HasPrefix(simrt.SiteName(t.LastSite), "plugins/range/") {
		w.Probe("crash.inside_range_plugin")
	}
	s.collectClockReads(w)
	s.checkDB(w, "after crash of incarnation "+strconv.Itoa(inc))
	for _, mac := range sortedKeys(s.volatile) {
		ip, ok := s.told[mac]
		if !ok {
			continue
		}
		if row, stored := s.stored[mac]; !stored || !row.ip.Equal(ip) {
			// lost on a failed save: after the restart this one client may get another address and its old one may be reused
			delete(s.told, mac)
			delete(s.owner, ip4u(ip))
			delete(s.toldAt, mac)
			w.Probe("range.volatile_binding_forgotten")
		}
		delete(s.promise, mac)
	}
	delay := int64(w.T.Draw(5000)) * 1e6
	if w.T.Draw(4) == 0 {
		delay = int64(w.T.Draw(100)) * 3600e9 // long outage
		w.Sim.FaultsFired[simrt.FClockJump]++
	}
	w.Sim.After(delay, func() {
		w.StartServer()
		// possibly crash again during start-up (bounded: every incarnation leaves its abandoned goroutines behind)
		if w.Inc < 10 && w.T.Draw(3) == 2 {
			w.Sim.ArmCrash(w.Sim.Steps+1+int64(w.T.Draw(150)), nil, w.onCrash)
		}
	})
}

func (s *lease4) OnStarted(w *World, inc int, err string) {
	if err != "" && w.Sim.SQLFaults > s.faultsAtStart {
		// fault-on variant: the store failed a call during start-up; an operator would start the server again
		w.Probe("range.startup_hit_by_sql_fault")
		w.Sim.After(1e9, func() { s.faultsAtStart = w.Sim.SQLFaults; w.StartServer() })
		return
	}
	s.faultsAtStart = w.Sim.SQLFaults
	if err != "" {
		w.Violate("C03", "restart-rejected/"+classifyStartErr(err), "incarnation %d could not start on the lease database the server wrote itself: %s (bindings told so far: %s)", inc, err, s.toldSummary())
		w.Sim.Stop("restart failed")
	}
}

func classifyStartErr(e string) string {
	switch {
	case strings.Contains(e, "malformed hardware address"):
		return "malformed-hardware-address"
	case strings.Contains(e, "re-allocate"):
		return "re-allocate"
	case strings.Contains(e, "expected an IPv4"):
		return "bad-ip"
	case strings.Contains(e, "scan"):
		return "scan"
	}
	return "other"
}

func (s *lease4) toldSummary() string {
	var l []string
	for m, ip := range s.told {
		l = append(l, fmt.Sprintf("%q->%s", m, ip))
	}
	sort.Strings(l)
	if len(l) > 8 {
		l = append(l[:8], "...")
	}
	return strings.Join(l, " ")
}

func (s *lease4) collectClockReads(w *World) {
	for _, cr := range w.Sim.TakeClockReads() {
		if cr.Tag != 0 {
			if _, ok := s.lastClock[cr.Tag]; !ok {
				s.lastClock[cr.Tag] = cr.Now
			}
		}
	}
}

func relevant4(dg *DG) bool {
	if dg.Req4 == nil || dg.Req4.OpCode != dhcpv4.OpcodeBootRequest {
		return false
	}
	mt := dg.Req4.MessageType()
	return mt == dhcpv4.MessageTypeDiscover || mt == dhcpv4.MessageTypeRequest
}

// OnInvoke observes the range plugin's own result (yiaddr and option 51 of the Handler4 result): the binding.
func (s *lease4) OnInvoke(w *World, dg *DG, inv *Invocation) {
	if inv.Plugin != "range" || dg == nil || dg.Req4 == nil {
		return
	}
	s.collectClockReads(w)
	mac := macKey(dg.Req4.ClientHWAddr)
	if _, ok := s.firstSeen[mac]; !ok {
		s.firstSeen[mac] = dg.DeliveredAt
	}
	s.applyFaultTags(w)
	if inv.RespNil {
		// a request whose own store call was made to fail may be dropped (an operation may fail under an injected
		// fault; it must not return wrong data)
		if at, ok := s.toldAt[mac]; ok && at < dg.DeliveredAt && !s.volatile[mac] && !s.faultedDG[dg.ID] {
			w.Violate("C02", "bound-client-not-served", "client %q holds %s but the range plugin gave its %s (dg%d) nothing", mac, s.told[mac], dg.Req4.MessageType(), dg.ID)
			return
		}
		if _, ok := s.told[mac]; !ok {
			s.noReply = append(s.noReply, dg)
		}
		return
	}
	ip := net.IP(inv.Yiaddr)
	a := ip4u(ip)
	if ip.To4() == nil || a < s.start || a > s.end {
		w.Violate("C02", "out-of-range", "dg%d (%s): address %s is outside the configured range %s-%s", dg.ID, dg.Kind, ip, ip4(s.start), ip4(s.end))
		return
	}
	want := s.lease.Round(time.Second)
	if got := time.Duration(inv.Lease); got != want {
		w.Violate("C02", "lease-time", "dg%d (%s): the range plugin set lease time %v, configured %v", dg.ID, dg.Kind, got, want)
	}
	if prev, ok := s.told[mac]; ok {
		if !prev.Equal(ip) {
			w.Violate("C02", "address-changed", "client %q was first given %s and is now given %s (dg%d %s)", mac, prev, ip, dg.ID, dg.Kind)
		} else {
			w.Probe("range.known_client_served")
		}
	} else {
		if other, taken := s.owner[a]; taken && other != mac {
			w.Violate("C02", "duplicate-address", "address %s was given to %q and is now also given to %q (dg%d %s)", ip, other, mac, dg.ID, dg.Kind)
		}
		s.told[mac] = append(net.IP(nil), ip.To4()...)
		s.owner[a] = mac
		s.toldAt[mac] = w.Sim.Now()
		w.Probe("range.new_binding")
		if len(s.told) == s.n {
			w.Probe("range.all_addresses_bound")
		}
	}
	// lease promise: from the instant the handler first read the clock
	if tr, ok := s.lastClock[dg.ID]; ok {
		p := tr + int64(s.lease)
		if p > s.promise[mac] {
			s.promise[mac] = p
		}
	}
}

// OnReply checks that what goes out on the wire is the binding the plugin made.
func (s *lease4) OnReply(w *World, dg *DG, r *Reply) {
	checkC11(w, dg, r)
	if r.Msg4 == nil || !relevant4(dg) {
		return
	}
	mac := macKey(dg.Req4.ClientHWAddr)
	ip := r.Msg4.YourIPAddr
	if prev, ok := s.told[mac]; ok && !prev.Equal(ip) {
		w.Violate("C02", "address-changed", "client %q holds %s but the reply on the wire carries %s (dg%d %s)", mac, prev, ip, dg.ID, dg.Kind)
	}
	want := s.lease.Round(time.Second)
	if got := r.Msg4.IPAddressLeaseTime(-1); got != want {
		w.Violate("C02", "lease-time", "dg%d (%s): reply carries lease time %v, configured %v", dg.ID, dg.Kind, got, want)
	}
	w.Probe("range.reply_on_wire")
}

func (s *lease4) OnHandled(w *World, dg *DG) {}

func (s *lease4) droppedByServerID(w *World, dg *DG) bool { return false }

func (s *lease4) firstDelivery(w *World) {
	for _, dg := range w.DGs {
		if dg.Delivered && relevant4(dg) {
			mac := macKey(dg.Req4.ClientHWAddr)
			if at, ok := s.firstSeen[mac]; !ok || dg.DeliveredAt < at {
				s.firstSeen[mac] = dg.DeliveredAt
			}
		}
	}
}

// readDB reads leases4 with an independent connection (real database/sql, real sqlite driver).
func (s *lease4) readDB(path string) (map[string]storedRow, []string, error) {
	if _, err := os.Stat(path); err != nil {
		return map[string]storedRow{}, nil, nil
	}
	db, err := sql.Open("sqlite3", "file:"+path+"?mode=ro")
	if err != nil {
		return nil, nil, err
	}
	defer db.Close()
	rows, err := db.Query("select cast(mac as text), cast(ip as text), expiry from leases4")
	if err != nil {
		if strings.Contains(err.Error(), "no such table") {
			return map[string]storedRow{}, nil, nil
		}
		return nil, nil, err
	}
	defer rows.Close()
	out := map[string]storedRow{}
	var problems []string
	seenIP := map[string]string{}
	for rows.Next() {
		var mac, ip string
		var exp sql.NullInt64
		if err := rows.Scan(&mac, &ip, &exp); err != nil {
			return nil, nil, err
		}
		key := canonMAC(mac)
		if _, dup := out[key]; dup {
			problems = append(problems, fmt.Sprintf("hardware address %q appears in two rows", mac))
		}
		if o, dup := seenIP[ip]; dup {
			problems = append(problems, fmt.Sprintf("address %s is stored for both %q and %q", ip, o, mac))
		}
		seenIP[ip] = mac
		out[key] = storedRow{ip: net.ParseIP(ip), expiry: exp.Int64, raw: mac}
	}
	return out, problems, rows.Err()
}

// canonMAC parses the colon-separated hex form leniently (independent of net.ParseMAC) and re-renders it.
func canonMAC(s string) string {
	if s == "" {
		return ""
	}
	parts := strings.Split(s, ":")
	hw := make(net.HardwareAddr, 0, len(parts))
	for _, p := range parts {
		v, err := strconv.ParseUint(p, 16, 8)
		if err != nil {
			return "?" + s
		}
		hw = append(hw, byte(v))
	}
	return hw.String()
}

// applyFaultTags marks the clients whose handler met an injected store failure as volatile. It goes by the
// datagram the failing call belonged to, not by the handler's result: the handler may still be running (or be
// killed by a crash) when the database is next examined, and another request of the same client may already
// have been answered from the in-memory record the failed save left behind.
func (s *lease4) applyFaultTags(w *World) {
	for ; s.faultTagsSeen < len(w.Sim.SQLEvents); s.faultTagsSeen++ {
		ev := w.Sim.SQLEvents[s.faultTagsSeen]
		dg := w.dgByID[ev.Tag]
		if dg == nil || dg.Req4 == nil {
			continue
		}
		mac := macKey(dg.Req4.ClientHWAddr)
		if !ev.OK {
			s.faultedDG[dg.ID] = true
		}
		switch {
		case !ev.OK && !s.volatile[mac]:
			s.volatile[mac] = true
			w.Probe("range.save_failed")
		case ev.OK && s.volatile[mac]:
			// a later store call of the same client went through (the plugin writes the whole row): durable again
			delete(s.volatile, mac)
			w.Probe("range.save_recovered")
		}
	}
}

// checkDB is C03's oracle on the live database file.
func (s *lease4) checkDB(w *World, when string) {
	s.applyFaultTags(w)
	s.dbReads++
	rows, problems, err := s.readDB(s.dbPath)
	if err != nil {
		w.Violate("C03", "db-unreadable", "%s: the lease database cannot be read back: %v", when, err)
		return
	}
	s.stored = rows
	// The rows are read with the harness's own idea of the table (text columns mac, ip, expiry). What the property
	// is about is what a restart restores, so a binding the raw reading cannot find is looked up through the range
	// plugin itself, started on a copy of the file: a different on-disk representation is not a lost binding.
	var view func(mac string) (net.IP, bool)
	viewTried := false
	restored := func(mac string, ip net.IP) bool {
		if !viewTried {
			viewTried = true
			view = s.pluginView(w)
		}
		if view == nil {
			return false
		}
		got, ok := view(mac)
		return ok && got.Equal(ip)
	}
	recognised := true
	for _, r := range rows {
		if strings.HasPrefix(canonMAC(r.raw), "?") {
			recognised = false
		}
	}
	for _, p := range problems {
		if recognised {
			w.Violate("C03", "db-duplicate", "%s: %s", when, p)
		}
	}
	for _, mac := range sortedKeys(s.told) {
		ip := s.told[mac]
		if s.volatile[mac] {
			continue
		}
		row, ok := rows[mac]
		if !ok {
			if restored(mac, ip) {
				w.Probe("range.row_found_through_plugin_only")
				s.stored[mac] = storedRow{ip: ip}
				continue
			}
			w.Violate("C03", "binding-lost", "%s: client %q was told %s but the database has no row for it (rows: %d) and a restart on a copy of the database does not restore it either", when, mac, ip, len(rows))
			continue
		}
		if !row.ip.Equal(ip) {
			if restored(mac, ip) {
				w.Probe("range.row_found_through_plugin_only")
				s.stored[mac] = storedRow{ip: ip}
				continue
			}
			w.Violate("C03", "binding-changed", "%s: client %q was told %s but the database says %s", when, mac, ip, row.ip)
		}
		if p, ok := s.promise[mac]; ok {
			wantUnix := (w.Sim.Cfg.EpochNs+p)/1e9 - 1
			if row.expiry < wantUnix {
				w.Violate("C03", "expiry-too-early", "%s: client %q was promised a lease until unix %d but the stored expiry is %d", when, mac, wantUnix+1, row.expiry)
			} else {
				w.Probe("range.expiry_checked")
			}
		}
	}
}

// snapshotRestart copies the database as it is now and restarts the range plugin on the copy
// (the plugin keeps no package state, so a second instance is a faithful restart).
func (s *lease4) snapshotRestart(w *World, why string) {
	if _, err := os.Stat(s.dbPath); err != nil {
		return
	}
	s.collectClockReads(w)
	s.applyFaultTags(w)
	snap := filepath.Join(w.Dir, fmt.Sprintf("snap-%d.sqlite3", w.Sim.Steps))
	if err := copyFile(s.dbPath, snap); err != nil {
		return
	}
	if _, err := os.Stat(s.dbPath + "-journal"); err == nil {
		copyFile(s.dbPath+"-journal", snap+"-journal")
	}
	w.Probe("range.snapshot_restart")
	p := plugins.RegisteredPlugins["range"]
	var h handler.Handler4
	var err error
	func() {
		defer func() {
			if r := recover(); r != nil {
				err = fmt.Errorf("panic: %v", r)
			}
		}()
		h, err = p.Setup4(snap, ip4(s.start).String(), ip4(s.end).String(), s.lease.String())
	}()
	if err != nil {
		w.Violate("C03", "restart-rejected/"+classifyStartErr(err.Error()), "restart on a copy of the lease database (%s, t=%.1fs) failed: %v (bindings told so far: %s)", why, float64(w.Sim.Now())/1e9, err, s.toldSummary())
		return
	}
	macs := make([]string, 0, len(s.told))
	for m := range s.told {
		macs = append(macs, m)
	}
	sort.Strings(macs)
	for _, mac := range macs {
		if s.volatile[mac] {
			continue
		}
		hw, ok := parseTold(mac)
		if !ok {
			continue
		}
		c := &Client4{MAC: hw}
		req := w.build4(c, dhcpv4.MessageTypeDiscover)
		resp, _ := dhcpv4.NewReplyFromRequest(req)
		func() {
			defer func() {
				if r := recover(); r != nil {
					w.Violate("C03", "restart-panic", "restarted plugin panicked serving %q: %v", mac, r)
				}
			}()
			out, _ := h(req, resp)
			if out == nil {
				w.Violate("C03", "binding-lost-after-restart", "after a restart on a copy of the database (%s) client %q, which holds %s, gets no address", why, mac, s.told[mac])
			} else if !out.YourIPAddr.Equal(s.told[mac]) {
				w.Violate("C03", "binding-changed-after-restart", "after a restart on a copy of the database (%s) client %q, which holds %s, is given %s", why, mac, s.told[mac], out.YourIPAddr)
			} else {
				w.Probe("range.snapshot_binding_restored")
			}
		}()
	}
}

// pluginView starts the range plugin on a copy of the lease database and returns a lookup "which address does a
// restarted server give this client" (nil if the copy cannot be made or the plugin does not start; the restart
// checks report that separately).
func (s *lease4) pluginView(w *World) func(mac string) (net.IP, bool) {
	if _, err := os.Stat(s.dbPath); err != nil {
		return nil
	}
	snap := filepath.Join(w.Dir, fmt.Sprintf("view-%d-%d.sqlite3", w.Sim.Steps, s.dbReads))
	if err := copyFile(s.dbPath, snap); err != nil {
		return nil
	}
	if _, err := os.Stat(s.dbPath + "-journal"); err == nil {
		copyFile(s.dbPath+"-journal", snap+"-journal")
	}
	p := plugins.RegisteredPlugins["range"]
	var h handler.Handler4
	var err error
	func() {
		defer func() {
			if r := recover(); r != nil {
				err = fmt.Errorf("panic: %v", r)
			}
		}()
		h, err = p.Setup4(snap, ip4(s.start).String(), ip4(s.end).String(), s.lease.String())
	}()
	if err != nil || h == nil {
		return nil
	}
	return func(mac string) (ip net.IP, ok bool) {
		hw, good := parseTold(mac)
		if !good {
			return nil, false
		}
		req := w.build4(&Client4{MAC: hw}, dhcpv4.MessageTypeDiscover)
		resp, _ := dhcpv4.NewReplyFromRequest(req)
		defer func() {
			if r := recover(); r != nil {
				ip, ok = nil, false
			}
		}()
		out, _ := h(req, resp)
		if out == nil {
			return nil, false
		}
		return out.YourIPAddr, true
	}
}

func parseTold(mac string) (net.HardwareAddr, bool) {
	if mac == "" {
		return net.HardwareAddr{}, true
	}
	parts := strings.Split(mac, ":")
	hw := make(net.HardwareAddr, 0, len(parts))
	for _, p := range parts {
		v, err := strconv.ParseUint(p, 16, 8)
		if err != nil {
			return nil, false
		}
		hw = append(hw, byte(v))
	}
	return hw, true
}

// copyFile copies through a child process: opening and closing the live database file in this
// process would silently drop sqlite's POSIX advisory locks on it (close(2) releases every lock the
// process holds on the file), which sqlite then reports as a disk I/O error.
func copyFile(src, dst string) error {
	return exec.Command("/bin/cp", "--", src, dst).Run()
}

func (s *lease4) Finish(w *World) {
	s.collectClockReads(w)
	s.firstDelivery(w)
	s.serialCheck(w)
	if !w.Up() {
		// the last incarnation never came up (crashed during start-up with nothing scheduled): restart once, faults off
		w.FaultsOn = false
		w.Sim.Disarm()
		w.StartServer()
		w.afterRun(w.Sim.Run())
		if len(w.Findings) > 0 {
			return
		}
	}
	s.checkDB(w, "at the end of the run")
	s.snapshotRestart(w, "end of run")
	if len(w.Findings) > 0 {
		return
	}
	// liveness once faults have stopped: every bound client is served, with its address
	w.FaultsOn = false
	w.Sim.Disarm()
	w.Sim.Cfg.TimeSkip = 0
	asked := map[string]*DG{}
	for _, c := range s.clients {
		mac := macKey(c.MAC)
		if _, ok := s.told[mac]; !ok || asked[mac] != nil || s.volatile[mac] {
			continue
		}
		m := w.build4(c, dhcpv4.MessageTypeRequest)
		asked[mac] = w.send4(c, m, "REQUEST(final renewal)")
	}
	w.afterRun(w.Sim.Run())
	for _, mac := range sortedKeys(asked) {
		dg := asked[mac]
		if dg == nil || !dg.Delivered {
			continue
		}
		if !dg.Handled {
			w.Violate("C02", "no-progress", "after faults stopped, the renewal of bound client %q (dg%d) was never handled", mac, dg.ID)
		} else if len(dg.Replies) == 0 && (dg.Req4.IsBroadcast() || !dg.Req4.GatewayIPAddr.IsUnspecified() || len(dg.Req4.ClientHWAddr) == 6) {
			w.Violate("C02", "bound-client-not-served", "after faults stopped, the renewal of bound client %q (dg%d) got no reply", mac, dg.ID)
		}
	}
	// exhaustion: an unknown client may be ignored only when every address was bound
	rows := s.stored
	for _, dg := range s.noReply {
		mac := macKey(dg.Req4.ClientHWAddr)
		// the instant the range plugin declined: every client whose first request had reached the server by then
		// and that holds (or has stored) an address may have taken it before
		declinedAt := dg.DeliveredAt
		for _, inv := range dg.Invs {
			if inv.Plugin == "range" && inv.At > declinedAt {
				declinedAt = inv.At
			}
		}
		bound := map[string]bool{}
		for m := range s.told {
			if m != mac && s.firstSeen[m] <= declinedAt {
				bound[m] = true
			}
		}
		rawRecognised := true
		for m := range rows {
			if strings.HasPrefix(m, "?") {
				rawRecognised = false
			}
			if m != mac {
				if at, ok := s.firstSeen[m]; ok && at <= declinedAt {
					bound[m] = true
				}
			}
		}
		if !rawRecognised {
			// the table is not in the format the harness reads: which clients have a stored lease (without ever having
			// been observed to be told one, e.g. across a crash) is unknown, so every client seen by then may hold one
			for m, at := range s.firstSeen {
				if m != mac && at <= declinedAt {
					bound[m] = true
				}
			}
		}
		// requests still in flight when this one was handled may have taken an address first
		for _, o := range w.DGs {
			if o != dg && o.Delivered && relevant4(o) && o.DeliveredAt <= declinedAt {
				om := macKey(o.Req4.ClientHWAddr)
				if _, t := s.told[om]; t && om != mac {
					bound[om] = true
				}
			}
		}
		if len(bound) >= s.n {
			w.Probe("range.exhausted_unknown_ignored")
			continue
		}
		if s.sqlFaults {
			continue
		}
		w.Violate("C02", "unknown-client-ignored", "%s (dg%d) from unknown client %q got no reply although only %d of %d addresses could have been bound at that time", dg.Req4.MessageType(), dg.ID, mac, len(bound), s.n)
	}
}

func sortedKeys[V any](m map[string]V) []string {
	ks := make([]string, 0, len(m))
	for k := range m {
		ks = append(ks, k)
	}
	sort.Strings(ks)
	return ks
}
