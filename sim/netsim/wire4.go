package netsim

import (
	"bytes"
	"fmt"
	"net"
	"path/filepath"

	"github.com/insomniacslk/dhcp/dhcpv4"
	"github.com/insomniacslk/dhcp/iana"

	"github.com/coredhcp/coredhcp/zzverif/simrt"
)

// wire4: arbitrary DHCPv4 header fields and options through the real
// HandleMsg4 under any chain; oracles for C11 (reply matches request) and C15
// (reply addressing).
type wire4 struct {
	baseScenario
	clients []*Client4
	nakAll  bool
	storm   bool
}

func init() {
	registerScenario("wire4", func() scenario { return &wire4{} })
}

func (s *wire4) Name() string { return "wire4" }

var addrPool4 = []net.IP{
	net.IPv4zero, net.IPv4zero,
	{10, 1, 2, 3}, {192, 0, 2, 77}, {172, 16, 5, 9},
	{169, 254, 3, 4}, {169, 254, 255, 254},
	{255, 255, 255, 255},
	{127, 0, 0, 1}, {224, 0, 0, 1},
}

func drawAddr4(t *simrt.Tape) net.IP {
	return append(net.IP(nil), addrPool4[t.Pick(len(addrPool4))]...)
}

// chains4 returns a valid DHCPv4 plugin chain drawn from the tape.
func chains4(w *World, t *simrt.Tape, allowNak bool) []PluginConf {
	db := filepath.Join(w.Dir, "w4.sqlite3")
	rng := PluginConf{"range", []string{db, "10.0.0.10", "10.0.0.60", "60s"}}
	var c []PluginConf
	switch t.Draw(8) {
	case 0:
		// empty chain: the skeleton reply goes out
	case 1:
		c = []PluginConf{rng}
	case 2:
		c = []PluginConf{{"server_id", []string{"10.0.0.1"}}, rng, {"dns", []string{"10.0.0.2", "10.0.0.3"}}, {"router", []string{"10.0.0.1"}}, {"netmask", []string{"255.255.255.0"}}, {"lease_time", []string{"600s"}}}
	case 3:
		c = []PluginConf{{"sleep", []string{"5ms"}}, rng, {"mtu", []string{"1400"}}, {"searchdomains", []string{"a.example", "b.example"}}}
	case 4:
		c = []PluginConf{{"lease_time", []string{"90s"}}, {"staticroute", []string{"10.9.0.0/16,10.0.0.1"}}, {"nbp", []string{"tftp://10.0.0.9/boot.img"}}}
	case 5:
		c = []PluginConf{{"ipv6only", []string{"300s"}}, rng, {"autoconfigure", []string{"1"}}}
	case 6:
		c = []PluginConf{{"zz_syn4", []string{"a", "modify"}}, rng, {"zz_syn", []string{"b", "replace"}}}
	default:
		c = []PluginConf{{"autoconfigure", []string{"0"}}, {"netmask", []string{"255.255.0.0"}}}
	}
	if allowNak && t.Draw(5) == 0 {
		// a plugin that builds its own reply object (addressing must still follow the request)
		fr := PluginConf{"zz_syn4", []string{"f", "fresh"}}
		pos := t.Pick(len(c) + 1)
		c = append(c[:pos:pos], append([]PluginConf{fr}, c[pos:]...)...)
	}
	if allowNak && t.Draw(3) == 0 {
		// a plugin that turns the answer into a NAK (position drawn)
		nak := PluginConf{"zz_syn4", []string{"n", "nak"}}
		pos := t.Pick(len(c) + 1)
		c = append(c[:pos:pos], append([]PluginConf{nak}, c[pos:]...)...)
	}
	return c
}

func (s *wire4) Plan(w *World) {
	t := w.T
	w.Has4 = true
	// storm: several clients without an address send plain requests at the same instant, so that several replies are on
	// the link-level unicast path (sendEthernet) at once
	s.storm = t.Draw(5) == 4
	w.Chain4 = chains4(w, t, !s.storm)
	w.Ifaces = defaultIfaces(3)
	switch t.Draw(6) {
	case 0:
		w.LSpecs = []ListenerSpec{{IfIndex: 0}}
	case 1:
		w.LSpecs = []ListenerSpec{{IfIndex: 2}, {IfIndex: 3}, {IfIndex: 4}}
	case 2:
		w.LSpecs = []ListenerSpec{{IfIndex: 3}, {IfIndex: 0}}
	case 3:
		// a concrete unicast listen address without a zone: not bound to an interface
		w.LSpecs = []ListenerSpec{{Addr: ifaceAddr4(2 + int(t.Draw(3)))}}
		w.Probe("wire4.listen_unicast_unbound")
	case 4:
		// a unicast address with a zone, and the limited broadcast address without one
		w.LSpecs = []ListenerSpec{{IfIndex: 3, Addr: ifaceAddr4(3)}, {Addr: net.IPv4bcast.To4()}}
	default:
		// a multicast listen address on an interface (listen4 joins the group), the wildcard for the rest
		w.LSpecs = []ListenerSpec{{IfIndex: 2, Addr: net.IP{224, 0, 0, 12}}, {IfIndex: 0}}
	}
	nc := t.Range(1, 6)
	if s.storm && nc < 3 {
		nc = 3
	}
	for i := 0; i < nc; i++ {
		c := &Client4{ID: i, MAC: drawMAC(t, 6, i+1), Link: 2 + int(t.Draw(3))}
		s.clients = append(s.clients, c)
	}
	w.FaultsOn = t.Draw(2) == 1
	if w.FaultsOn {
		w.DupPct = int(t.Draw(30))
		w.DelayMaxNs = 1e9
	}
	w.Sim.SetPoolReuse(int(t.Draw(3)))
	w.Sim.SetPoolStale(t.Draw(2) == 1)
	n := t.Range(2, 30)
	var at int64
	if s.storm {
		w.Sim.SetPoolReuse(1 + int(t.Draw(2)))
		w.Probe("wire4.storm")
		for i := 0; i < n; i++ {
			if t.Draw(4) == 0 {
				at += int64(t.Draw(300)) * 1e6
			}
			c := s.clients[i%len(s.clients)]
			w.Sim.After(at, func() { s.sendOne(w, c) })
		}
		return
	}
	for i := 0; i < n; i++ {
		switch t.Draw(3) {
		case 0:
			at += int64(t.Draw(2000)) * 1e6
		case 1:
			at += int64(t.Draw(40)) * 1000
		default:
			// same instant: handlers overlap whatever the scheduler's time policy
		}
		c := s.clients[t.Pick(len(s.clients))]
		w.Sim.After(at, func() { s.sendOne(w, c) })
	}
}

// genReq4 draws a DHCPv4 message with arbitrary header fields and options.
func genReq4(w *World, c *Client4) (*dhcpv4.DHCPv4, string) {
	t := w.T
	m := w.build4(c, 0)
	// opcode
	switch t.Draw(8) {
	case 0:
		m.OpCode = dhcpv4.OpcodeBootReply
	case 1:
		m.OpCode = dhcpv4.OpcodeType(t.Draw(256))
	}
	// message type
	desc := ""
	switch t.Draw(8) {
	case 0:
		desc = "no-type"
	case 1:
		mt := dhcpv4.MessageType(t.Draw(20))
		m.UpdateOption(dhcpv4.OptMessageType(mt))
		desc = mt.String()
	case 2:
		m.UpdateOption(dhcpv4.OptGeneric(dhcpv4.OptionDHCPMessageType, []byte{1, 3}))
		desc = "type-len2"
	case 3, 4, 5:
		m.UpdateOption(dhcpv4.OptMessageType(dhcpv4.MessageTypeRequest))
		desc = "REQUEST"
	default:
		m.UpdateOption(dhcpv4.OptMessageType(dhcpv4.MessageTypeDiscover))
		desc = "DISCOVER"
	}
	if t.Draw(4) == 0 {
		m.HWType = iana.HWType(t.Draw(256))
	}
	if t.Draw(4) == 0 {
		m.ClientHWAddr = drawMAC(t, t.Range(0, 16), c.ID+1)
	}
	switch t.Draw(4) {
	case 0:
		m.Flags = 0x8000
	case 1:
		m.Flags = uint16(t.Draw(1 << 16))
	}
	m.GatewayIPAddr = drawAddr4(t)
	if t.Draw(2) == 0 {
		m.GatewayIPAddr = net.IPv4zero
	}
	m.ClientIPAddr = drawAddr4(t)
	if t.Draw(2) == 0 {
		m.ClientIPAddr = net.IPv4zero
	}
	if t.Draw(3) == 0 {
		b := make([]byte, t.Range(1, 20)) // zero-length options 82/61 are not generated: the codec parses them to "no value"
		t.Bytes(b)
		m.UpdateOption(dhcpv4.OptGeneric(dhcpv4.OptionRelayAgentInformation, b))
	}
	if t.Draw(3) == 0 {
		b := make([]byte, t.Range(1, 12))
		t.Bytes(b)
		m.UpdateOption(dhcpv4.OptGeneric(dhcpv4.OptionClientIdentifier, b))
	}
	if t.Draw(3) == 0 {
		var l []dhcpv4.OptionCode
		for _, code := range []uint8{1, 3, 6, 15, 26, 51, 66, 67, 108, 116, 119, 121} {
			if t.Draw(2) == 1 {
				l = append(l, dhcpv4.GenericOptionCode(code))
			}
		}
		m.UpdateOption(dhcpv4.OptParameterRequestList(l...))
	}
	if t.Draw(4) == 0 {
		m.UpdateOption(dhcpv4.OptGeneric(dhcpv4.OptionAutoConfigure, []byte{byte(t.Draw(2))}))
	}
	if t.Draw(5) == 0 {
		m.UpdateOption(dhcpv4.OptServerIdentifier(net.IP{10, 0, 0, byte(1 + t.Draw(2))}))
	}
	if t.Draw(6) == 0 {
		m.ServerIPAddr = net.IP{10, 0, 0, byte(1 + t.Draw(2))}
	}
	if t.Draw(6) == 0 {
		h := hostnamePool[t.Pick(len(hostnamePool))]
		m.UpdateOption(dhcpv4.OptHostName(h))
	}
	return m, desc
}

func (s *wire4) sendOne(w *World, c *Client4) {
	t := w.T
	m, desc := genReq4(w, c)
	if s.storm {
		m.OpCode = dhcpv4.OpcodeBootRequest
		m.HWType = iana.HWTypeEthernet
		m.ClientHWAddr = append(net.HardwareAddr(nil), c.MAC...)
		m.GatewayIPAddr, m.ClientIPAddr = net.IPv4zero, net.IPv4zero
		m.Flags &^= 0x8000
		if mt := m.MessageType(); mt != dhcpv4.MessageTypeDiscover && mt != dhcpv4.MessageTypeRequest {
			m.UpdateOption(dhcpv4.OptMessageType(dhcpv4.MessageTypeDiscover))
			desc = "DISCOVER"
		}
	}
	b := m.ToBytes()
	kind := fmt.Sprintf("%s op=%d %s hlen=%d flags=%#x gi=%s ci=%s", c, m.OpCode, desc, len(m.ClientHWAddr), m.Flags, m.GatewayIPAddr, m.ClientIPAddr)
	// byte-level damage in a few datagrams
	dmg := t.Draw(10)
	if s.storm {
		dmg = 9
	}
	switch dmg {
	case 0:
		b = b[:t.Pick(len(b))]
		kind += " TRUNCATED"
	case 1:
		for k := t.Range(1, 4); k > 0; k-- {
			b[t.Pick(len(b))] ^= 1 << t.Draw(8)
		}
		kind += " BITFLIPS"
	case 2:
		b[2] = byte(17 + t.Draw(239)) // hlen > 16 on the wire
		kind += " HLEN>16"
	}
	li := w.listenerFor(false, c.Link)
	if li < 0 {
		return
	}
	src := net.UDPAddr{IP: net.IPv4zero, Port: 68}
	if !m.GatewayIPAddr.IsUnspecified() {
		src = net.UDPAddr{IP: m.GatewayIPAddr, Port: 67}
	} else if !m.ClientIPAddr.IsUnspecified() {
		src = net.UDPAddr{IP: m.ClientIPAddr, Port: 68}
	}
	w.Send(li, b, src, c.Link, kind, c.ID, nil)
}

func (s *wire4) OnReply(w *World, dg *DG, r *Reply) {
	checkC11(w, dg, r)
	checkC15(w, dg, r)
}

func (s *wire4) OnHandled(w *World, dg *DG) {
	if len(dg.Replies) == 0 {
		w.Probe("wire4.no_reply")
		if dg.ParseErr != nil {
			w.Probe("wire4.unparseable_dropped")
		} else if !relevant4(dg) {
			w.Probe("wire4.non_request_dropped")
		}
	}
}

// checkC11: a reply answers exactly one BOOTREQUEST DISCOVER/REQUEST and mirrors it.
func checkC11(w *World, dg *DG, r *Reply) {
	if dg.V6 {
		return
	}
	if dg.ParseErr != nil {
		w.Violate("C11", "answered-unparseable", "dg%d (%s) does not parse (%v) but was answered", dg.ID, dg.Kind, dg.ParseErr)
		return
	}
	req := dg.Req4
	if req.OpCode != dhcpv4.OpcodeBootRequest {
		w.Violate("C11", "answered-non-bootrequest", "dg%d (%s) has opcode %d but was answered", dg.ID, dg.Kind, req.OpCode)
		return
	}
	mt := req.MessageType()
	if mt != dhcpv4.MessageTypeDiscover && mt != dhcpv4.MessageTypeRequest {
		w.Violate("C11", "answered-other-type", "dg%d (%s) has message type %v but was answered", dg.ID, dg.Kind, mt)
		return
	}
	if r.ParseErr != nil || r.Msg4 == nil {
		w.Violate("C11", "reply-unparseable", "the reply to dg%d (%s) does not parse: %v", dg.ID, dg.Kind, r.ParseErr)
		return
	}
	rep := r.Msg4
	bad := func(what string, got, want interface{}) {
		w.Violate("C11", "mismatch-"+what, "reply to dg%d (%s): %s is %v, the request has %v", dg.ID, dg.Kind, what, got, want)
	}
	if rep.OpCode != dhcpv4.OpcodeBootReply {
		bad("opcode", rep.OpCode, "BOOTREPLY expected")
	}
	if rep.TransactionID != req.TransactionID {
		bad("xid", rep.TransactionID, req.TransactionID)
	}
	if rep.HWType != req.HWType {
		bad("htype", rep.HWType, req.HWType)
	}
	if !bytes.Equal(rep.ClientHWAddr, req.ClientHWAddr) {
		bad("chaddr", rep.ClientHWAddr, req.ClientHWAddr)
	}
	fresh := chainHasBehaviour(w, "fresh") // the reply object was built by a synthetic plugin, not by the server
	if rep.Flags != req.Flags && !fresh {
		bad("flags", rep.Flags, req.Flags)
	}
	if !rep.GatewayIPAddr.Equal(req.GatewayIPAddr) && !fresh {
		bad("giaddr", rep.GatewayIPAddr, req.GatewayIPAddr)
	}
	for _, code := range []dhcpv4.OptionCode{dhcpv4.OptionRelayAgentInformation, dhcpv4.OptionClientIdentifier} {
		if fresh {
			break
		}
		if req.Options.Has(code) && len(req.Options.Get(code)) > 0 {
			if !rep.Options.Has(code) || !bytes.Equal(rep.Options.Get(code), req.Options.Get(code)) {
				bad(fmt.Sprintf("option-%d", code.Code()), fmt.Sprintf("%x (present=%v)", rep.Options.Get(code), rep.Options.Has(code)), fmt.Sprintf("%x", req.Options.Get(code)))
			} else {
				w.Probe(fmt.Sprintf("wire4.option_%d_echoed", code.Code()))
			}
		} else if rep.Options.Has(code) && !req.Options.Has(code) {
			bad(fmt.Sprintf("option-%d", code.Code()), "present", "absent")
		}
	}
	rt := rep.MessageType()
	switch mt {
	case dhcpv4.MessageTypeDiscover:
		if rt != dhcpv4.MessageTypeOffer && !(rt == dhcpv4.MessageTypeNak && chainHasNak(w)) {
			bad("type", rt, "OFFER for a DISCOVER")
		}
	case dhcpv4.MessageTypeRequest:
		if rt != dhcpv4.MessageTypeAck && rt != dhcpv4.MessageTypeNak {
			bad("type", rt, "ACK or NAK for a REQUEST")
		}
	}
	w.Probe("wire4.reply_checked")
}

func chainHasBehaviour(w *World, beh string) bool {
	for _, p := range w.Chain4 {
		if len(p.Args) > 1 && p.Args[1] == beh {
			return true
		}
	}
	return false
}

func chainHasNak(w *World) bool {
	for _, p := range w.Chain4 {
		if len(p.Args) > 1 && p.Args[1] == "nak" {
			return true
		}
	}
	return false
}

func isLinkLocal4(ip net.IP) bool { v := ip.To4(); return v != nil && v[0] == 169 && v[1] == 254 }

// checkC15: RFC 2131 §4.1 addressing cascade.
func checkC15(w *World, dg *DG, r *Reply) {
	if dg.V6 || dg.Req4 == nil || r.Msg4 == nil {
		return
	}
	req, rep, c := dg.Req4, r.Msg4, r.Cap
	var wantIP net.IP
	wantPort := 68
	l2 := false
	rung := ""
	switch {
	case !req.GatewayIPAddr.IsUnspecified():
		wantIP, wantPort, rung = req.GatewayIPAddr, 67, "relay"
	case rep.MessageType() == dhcpv4.MessageTypeNak:
		wantIP, rung = net.IPv4bcast, "nak-broadcast"
	case !req.ClientIPAddr.IsUnspecified():
		wantIP, rung = req.ClientIPAddr, "ciaddr"
	case req.IsBroadcast():
		wantIP, rung = net.IPv4bcast, "broadcast-flag"
	default:
		wantIP, l2, rung = rep.YourIPAddr, true, "l2-unicast"
	}
	w.Probe("addr4.rung." + rung)
	pinned := l2 || wantIP.Equal(net.IPv4bcast) || isLinkLocal4(wantIP)
	wantIf := w.LSpecs[dg.L].IfIndex
	if wantIf == 0 {
		wantIf = dg.IfIndex
		if pinned {
			w.Probe("addr4.pinned_unbound")
		}
	} else if pinned {
		w.Probe("addr4.pinned_bound")
	}
	bad := func(class, format string, a ...interface{}) {
		w.Violate("C15", class, "reply to dg%d (%s), rung %s: %s", dg.ID, dg.Kind, rung, fmt.Sprintf(format, a...))
	}
	if l2 {
		if !c.L2 {
			bad("not-l2", "expected a link-level unicast to %s, got a UDP datagram to %s:%d", req.ClientHWAddr, net.IP(c.DstIP), c.DstPort)
			return
		}
		f := r.Frame
		if f == nil {
			bad("frame-unparseable", "the frame does not parse")
			return
		}
		if !bytes.Equal(f.DstMAC, req.ClientHWAddr) {
			bad("frame-dst-mac", "frame goes to %s, client hardware address is %s", f.DstMAC, req.ClientHWAddr)
		}
		if !f.DstIP.Equal(rep.YourIPAddr) {
			bad("frame-dst-ip", "frame IP destination is %s, offered address is %s", f.DstIP, rep.YourIPAddr)
		}
		if f.SrcPort != 67 || f.DstPort != 68 {
			bad("frame-ports", "frame UDP ports are %d->%d, want 67->68", f.SrcPort, f.DstPort)
		}
		if f.EtherType != 0x0800 || f.Proto != 17 {
			bad("frame-proto", "ethertype %#x proto %d", f.EtherType, f.Proto)
		}
		if !f.IPChecksumOK || !f.UDPChecksumOK {
			bad("frame-checksum", "bad checksum (ip ok=%v udp ok=%v)", f.IPChecksumOK, f.UDPChecksumOK)
		}
		if c.IfIndex != wantIf {
			bad("frame-interface", "frame leaves on interface %d, want %d", c.IfIndex, wantIf)
		}
		return
	}
	if c.L2 {
		bad("unexpected-l2", "got a link-level unicast, expected UDP to %s:%d", wantIP, wantPort)
		return
	}
	if !net.IP(c.DstIP).Equal(wantIP) {
		bad("destination", "sent to %s, want %s", net.IP(c.DstIP), wantIP)
	}
	if c.DstPort != wantPort {
		bad("port", "sent to port %d, want %d", c.DstPort, wantPort)
	}
	if pinned {
		if !c.HasCM || c.IfIndex != wantIf {
			bad("interface", "broadcast/link-local reply pinned to interface %v (control message present=%v), want %d", c.IfIndex, c.HasCM, wantIf)
		}
	} else if c.HasCM && c.IfIndex != 0 {
		bad("pinned-routable", "reply to routable %s is pinned to interface %d", wantIP, c.IfIndex)
	}
}
