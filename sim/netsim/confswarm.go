package netsim

import (
	"fmt"
	"net"
	"path/filepath"
	"strings"

	"github.com/insomniacslk/dhcp/dhcpv4"
	"github.com/insomniacslk/dhcp/dhcpv6"

	"github.com/coredhcp/coredhcp/zzverif/simrt"
)

// confswarm: one built-in plugin (or a short chain around it) with an argument vector drawn from valid,
// boundary and invalid values of each argument kind, started through the real config.Load and
// LoadPlugins. A rejected configuration ends the run; an accepted one gets a battery of requests.
// Oracle for C19: no panic, and every handler result serialises and parses back to the same options.
type confswarm struct {
	baseScenario
	plugin    string
	args      []string
	v6        bool
	c4        []*Client4
	c6        []*Client6
	started   bool
	dual      bool
	otherFile string
}

func init() { registerScenario("confswarm", func() scenario { return &confswarm{} }) }

func (s *confswarm) Name() string { return "confswarm" }

var argAddr4 = []string{"10.0.0.1", "192.0.2.200", "0.0.0.0", "255.255.255.255", "10.0.0", "256.1.1.1", "::ffff:10.0.0.9", "2001:db8::1", "fe80::1", "::", "localhost", "10.0.0.1/24", "", "1e3"}
var argAddr6 = []string{"2001:db8::1", "::", "::1", "fe80::1", "ff02::1:2", "10.0.0.1", "::ffff:1.2.3.4", "2001:db8::g", "2001:db8:::1", "1", "x"}
var argDur = []string{"60s", "0s", "1h", "-5s", "1ns", "90s500ms", "2540400h", "9223372036s", "1000000h", "abc", "60", "", "1e3s", "4294967296s"}
var argInt = []string{"1500", "0", "-1", "68", "65535", "65536", "4294967296", "99999999999999999999", "abc", "1.5", "0x10", ""}
var argURL = []string{"tftp://10.0.0.9/boot.img", "http://[2001:db8::9]/boot.efi", "https://boot.example/x?params=a%20b", "ftp://h/f", "tftp://h/" + strings.Repeat("p", 300), "/only/path", "", ":::", "%zz", "http://h/x?params=" + strings.Repeat("q", 70000), "tftp://" + strings.Repeat("h", 300) + "/f", "opaque:data", "http://h/\x00"}
var argCIDR4 = []string{"10.0.0.0/8", "0.0.0.0/0", "192.0.2.1/32", "10.1.2.3/13", "2001:db8::/32", "::/0", "10.0.0.0/33", "10.0.0.0", "/8", "::ffff:10.0.0.0/104"}
var argDomain = []string{"example.org", "a.b.c.d.e", "x", ".", "trailing.dot.", strings.Repeat("l", 63) + ".ok", strings.Repeat("l", 64) + ".toolong", strings.Repeat("a.", 130) + "z", "_srv._tcp.example", "ex\xc3\xa4mple.org", "", "a..b", "-"}
var argMAC = []string{"00:11:22:33:44:55", "00-11-22-33-44-55", "0011.2233.4455", "02:00:00:ff:fe:00:00:09", "00:11:22:33:44", "zz:11:22:33:44:55", "", "001122334455"}

func pick(t *simrt.Tape, l []string) string { return l[t.Pick(len(l))] }

func (s *confswarm) drawArgs(w *World) {
	t := w.T
	db := filepath.Join(w.Dir, "swarm.sqlite3")
	lease := filepath.Join(w.Dir, "swarm-leases.txt")
	n := func(lo, hi int) int { return t.Range(lo, hi) }
	many := func(l []string, lo, hi int) []string {
		var r []string
		for i, k := 0, n(lo, hi); i < k; i++ {
			r = append(r, pick(t, l))
		}
		return r
	}
	plugins4 := []string{"autoconfigure", "dns", "file", "ipv6only", "lease_time", "mtu", "nbp", "netmask", "range", "router", "searchdomains", "server_id", "sleep", "staticroute"}
	plugins6 := []string{"dns", "file", "nbp", "prefix", "searchdomains", "server_id", "sleep"}
	s.v6 = t.Draw(3) == 0
	if s.v6 {
		s.plugin = plugins6[t.Pick(len(plugins6))]
	} else {
		s.plugin = plugins4[t.Pick(len(plugins4))]
	}
	switch s.plugin {
	case "autoconfigure":
		s.args = many([]string{"0", "1", "DoNotAutoConfigure", "AutoConfigure", "2", "", "autoconfigure", "-1"}, 0, 2)
	case "dns", "router":
		if s.v6 {
			s.args = many(argAddr6, 0, 4)
		} else {
			s.args = many(argAddr4, 0, 4)
		}
	case "file":
		w.Sim.FSRegisterDir(w.Dir)
		w.Sim.FSRegisterPath(lease)
		content := []string{"00:11:22:33:44:55 10.0.0.9\n", "00:11:22:33:44:55 2001:db8::9\n", "", "garbage\n", "# c\n\n00:00:00:00:00:01 10.7.0.1\n00:00:00:00:00:01 2001:db8:5::1\n"}[t.Pick(5)]
		if t.Draw(5) != 0 {
			w.Sim.FSCreate(lease, []byte(content))
		}
		s.args = []string{lease}
		switch t.Draw(5) {
		case 0:
			s.args = append(s.args, "autorefresh")
		case 1:
			s.args = append(s.args, "autorefresh", "extra")
		case 2:
			s.args = nil
		case 3:
			s.args = []string{""}
		}
	case "ipv6only", "lease_time", "sleep":
		s.args = many(argDur, 0, 2)
	case "mtu":
		s.args = many(argInt, 0, 2)
	case "nbp":
		s.args = many(argURL, 0, 2)
		if !w.O.Known {
			// known-finding trigger: a URL whose option cannot fit into one datagram (> 64 KiB)
			for i, a := range s.args {
				if len(a) > 60000 {
					s.args[i] = "http://h/x?params=" + strings.Repeat("q", 900)
				}
			}
		}
	case "netmask":
		s.args = many([]string{"255.255.255.0", "255.255.0.0", "255.255.255.255", "0.0.0.0", "255.0.255.0", "0.0.0.255", "ffff:ffff::", "255.255.255", "", "::ffff:255.255.255.0", "128.0.0.0"}, 0, 2)
	case "prefix":
		pools := []string{"2001:db8::/48", "2001:db8::/64", "::/0", "2001:db8::/127", "2001:db8::/128", "10.0.0.0/8", "::ffff:10.0.0.0/104", "2001:db8::1/48", "2001:db8::/129", "2001:db8::", "x"}
		sizes := []string{"64", "56", "48", "128", "129", "-1", "0", "60", "abc", "", "68", "+64", "0x40"}
		s.args = []string{pick(t, pools), pick(t, sizes)}
		if t.Draw(6) == 0 {
			s.args = s.args[:1]
		}
		// keep the pool representable in memory: at most 2^20 blocks (a larger accepted pool would only exhaust RAM at start-up)
		var pl, sz int
		if _, err := fmt.Sscanf(s.args[0][strings.LastIndex(s.args[0], "/")+1:], "%d", &pl); err == nil && len(s.args) > 1 {
			if _, err := fmt.Sscanf(s.args[1], "%d", &sz); err == nil && sz-pl > 20 {
				s.args[1] = fmt.Sprint(pl + 4)
			}
		}
	case "range":
		starts := []string{"10.0.0.10", "10.0.0.1", "255.255.255.250", "0.0.0.0", "10.0.0.20", "2001:db8::1", "::ffff:10.0.0.10", "x", ""}
		ends := []string{"10.0.0.20", "10.0.0.10", "255.255.255.255", "10.0.3.255", "10.0.0.9", "2001:db8::2", "::ffff:10.0.0.20", "y"}
		s.args = []string{db, pick(t, starts), pick(t, ends), pick(t, argDur)}
		switch t.Draw(8) {
		case 0:
			s.args = s.args[:3]
		case 1:
			s.args[0] = ""
		case 2:
			s.args[0] = filepath.Join(w.Dir, "no", "such", "dir", "db.sqlite3")
		case 3:
			s.args = append(s.args, "extra")
		}
	case "searchdomains":
		s.args = many(argDomain, 0, 4)
	case "server_id":
		if s.v6 {
			s.args = []string{pick(t, []string{"LL", "LLT", "ll", "duid-ll", "duid_llt", "EN", "UUID", "opaque", "", "x"}), pick(t, argMAC)}
			if t.Draw(6) == 0 {
				s.args = s.args[:1]
			}
		} else {
			s.args = many(argAddr4, 0, 2)
		}
	case "staticroute":
		var r []string
		if t.Draw(4) == 0 {
			// one route, valid gateway, destination in a spelling that is not plain IPv4: if setup accepts it, the
			// first request serialises it (seeded change C19-m10 was reached by 2 of 3000 runs without this bias)
			dst := []string{"::ffff:10.0.0.0/104", "::ffff:10.1.0.0/120", "2001:db8::/32", "::/0", "::ffff:0.0.0.0/96", "10.1.2.3/13"}[t.Pick(6)]
			s.args = []string{dst + "," + []string{"10.0.0.1", "192.0.2.200", "10.0.0.254"}[t.Pick(3)]}
			break
		}
		for i, k := 0, n(0, 3); i < k; i++ {
			gw := pick(t, argAddr4)
			if t.Draw(3) != 0 {
				gw = []string{"10.0.0.1", "192.0.2.200", "10.0.0.254"}[t.Pick(3)] // mostly valid gateways, so that odd destinations reach the wire
			}
			item := pick(t, argCIDR4) + "," + gw
			switch t.Draw(8) {
			case 0:
				item = pick(t, argCIDR4)
			case 1:
				item = item + ",extra"
			case 2:
				item = "," + pick(t, argAddr4)
			}
			r = append(r, item)
		}
		s.args = r
	}
	// arguments travel through the YAML file and strings.Fields: keep only what survives that
	var clean []string
	for _, a := range s.args {
		if a == "" || strings.ContainsAny(a, " \t\n\"'#:{}[],&*!|>%@`\x00") && !strings.ContainsAny(a, " \t\n\x00") {
			// quoted below; empty strings cannot be passed as a separate argument through the config file
		}
		if a == "" || strings.ContainsAny(a, " \t\n\x00") {
			continue
		}
		clean = append(clean, a)
	}
	s.args = clean
}

func yamlQuote(s string) string {
	var sb strings.Builder
	sb.WriteByte('"')
	for _, r := range []byte(s) {
		switch {
		case r == '"' || r == '\\':
			sb.WriteByte('\\')
			sb.WriteByte(r)
		case r < 0x20 || r >= 0x7f:
			fmt.Fprintf(&sb, "\\x%02x", r)
		default:
			sb.WriteByte(r)
		}
	}
	sb.WriteByte('"')
	return sb.String()
}

func (s *confswarm) Plan(w *World) {
	t := w.T
	w.Ifaces = defaultIfaces(2)
	s.drawArgs(w)
	w.Sim.FaultsFired[simrt.FBadArgs]++
	item := PluginConf{s.plugin, s.args}
	var chain []PluginConf
	// a short chain around the plugin under test (valid neighbours)
	if !s.v6 {
		if t.Draw(3) == 0 && s.plugin != "range" {
			chain = append(chain, PluginConf{"range", []string{filepath.Join(w.Dir, "nb.sqlite3"), "10.8.0.1", "10.8.0.40", "60s"}})
		}
		chain = append(chain, item)
		if t.Draw(3) == 0 && s.plugin != "netmask" {
			chain = append(chain, PluginConf{"netmask", []string{"255.255.255.0"}})
		}
		w.Has4 = true
		w.Chain4 = chain
	} else {
		if t.Draw(3) == 0 && s.plugin != "prefix" {
			chain = append(chain, PluginConf{"prefix", []string{"2001:db8:77::/56", "60"}})
		}
		chain = append(chain, item)
		w.Has6 = true
		w.Chain6 = chain
	}
	var sb strings.Builder
	name := "server4"
	listen := "0.0.0.0:67"
	if s.v6 {
		name, listen = "server6", "[::]:547"
	}
	sb.WriteString(name + ":\n  listen: \"" + listen + "\"\n  plugins:\n")
	for _, p := range chain {
		sb.WriteString("    - " + p.Name + ": " + yamlQuote(strings.Join(p.Args, " ")) + "\n")
	}
	if s.plugin == "file" && t.Draw(2) == 1 {
		// the other protocol uses the file plugin too (its own, valid file): both tables live in one package
		other := filepath.Join(w.Dir, "swarm-other.txt")
		w.Sim.FSRegisterPath(other)
		s.dual = true
		if s.v6 {
			w.Sim.FSCreate(other, []byte("00:00:00:00:00:01 10.7.0.1\n"))
			sb.WriteString("server4:\n  listen: \"0.0.0.0:67\"\n  plugins:\n    - file: " + yamlQuote(other+" autorefresh") + "\n")
			w.Has4 = true
			w.Chain4 = []PluginConf{{"file", []string{other, "autorefresh"}}}
		} else {
			w.Sim.FSCreate(other, []byte("00:00:00:00:00:01 2001:db8:5::1\n"))
			sb.WriteString("server6:\n  listen: \"[::]:547\"\n  plugins:\n    - file: " + yamlQuote(other+" autorefresh") + "\n")
			w.Has6 = true
			w.Chain6 = []PluginConf{{"file", []string{other, "autorefresh"}}}
		}
		s.otherFile = other
	}
	w.UseConfigFile = true
	w.ConfigText = sb.String()
	nclients := 4
	if s.plugin == "range" {
		nclients = 16 // enough distinct clients to exhaust the small ranges
	}
	for i := 0; i < nclients; i++ {
		hw := drawMAC(t, 6, i+1)
		if i == 0 {
			hw = net.HardwareAddr{0, 0, 0, 0, 0, 1} // listed in the lease files
		}
		s.c4 = append(s.c4, &Client4{ID: i, MAC: hw, Link: 2, Bcast: t.Draw(2) == 1})
		c := newClient6(t, i, 2)
		if i == 0 {
			c.MAC = hw
			c.DUID = &dhcpv6.DUIDLL{HWType: 1, LinkLayerAddr: hw}
		}
		s.c6 = append(s.c6, c)
	}
	w.Sim.SetPoolReuse(int(t.Draw(3)))
}

func (s *confswarm) OnStarted(w *World, inc int, err string) {
	if err != "" {
		w.Probe("confswarm.rejected")
		w.Probe("confswarm.rejected." + s.plugin)
		return
	}
	s.started = true
	w.Probe("confswarm.accepted")
	w.Probe("confswarm.accepted." + s.plugin)
	t := w.T
	n := t.Range(10, 40)
	var at int64
	for i := 0; i < n; i++ {
		at += int64(t.Draw(200)) * 1e6
		i := i
		if s.dual && i == 2 {
			other := s.otherFile
			w.Sim.After(at, func() { w.Sim.FSAppend(other, []byte("# touched\n")) })
		}
		w.Sim.After(at, func() {
			v6 := s.v6
			if s.dual && i%2 == 1 {
				v6 = !v6
			}
			if v6 {
				c := s.c6[i%len(s.c6)]
				types := []dhcpv6.MessageType{dhcpv6.MessageTypeSolicit, dhcpv6.MessageTypeRequest, dhcpv6.MessageTypeRenew, dhcpv6.MessageTypeRebind, dhcpv6.MessageTypeInformationRequest, dhcpv6.MessageTypeRelease, dhcpv6.MessageTypeConfirm}
				mt := types[t.Pick(len(types))]
				m := w.build6(c, mt)
				if t.Draw(2) == 1 {
					m.AddOption(dhcpv6.OptRequestedOption(dhcpv6.OptionDNSRecursiveNameServer, dhcpv6.OptionDomainSearchList, dhcpv6.OptionBootfileURL, dhcpv6.OptionBootfileParam))
				}
				if t.Draw(2) == 1 {
					pd := &dhcpv6.OptIAPD{IaId: [4]byte{1, 2, 3, byte(i)}}
					// hints of every family and shape, aimed at whatever pool was configured
					hints := []string{"", "::/0", "::/64", "2001:db8::/64", "2001:db8:77:10::/60", "::ffff:10.1.0.0/120", "::ffff:10.0.0.0/104", "10.1.0.0/24", "fe80::/10", "2001:db8::1/128", "::1/128"}
					for k, n := 0, t.Range(0, 2); k < n; k++ {
						h := hints[t.Pick(len(hints))]
						if h == "" {
							pd.Options.Add(&dhcpv6.OptIAPrefix{})
							continue
						}
						ip, ipn, err := net.ParseCIDR(h)
						if err != nil {
							continue
						}
						ones, _ := ipn.Mask.Size()
						if ip.To4() != nil && !strings.Contains(h, ":") {
							ones += 96
						}
						pd.Options.Add(&dhcpv6.OptIAPrefix{Prefix: &net.IPNet{IP: ip.To16(), Mask: net.CIDRMask(ones, 128)}})
					}
					m.AddOption(pd)
				}
				if t.Draw(2) == 1 {
					m.AddOption(&dhcpv6.OptIANA{IaId: [4]byte{4, 5, 6, byte(i)}})
				}
				if t.Draw(3) == 0 {
					m.AddOption(&dhcpv6.OptionGeneric{OptionCode: dhcpv6.OptionRapidCommit})
				}
				w.send6(c, m, mt.String())
				return
			}
			c := s.c4[i%len(s.c4)]
			mt := dhcpv4.MessageTypeDiscover
			if t.Draw(2) == 1 {
				mt = dhcpv4.MessageTypeRequest
			}
			m := w.build4(c, mt)
			switch t.Draw(3) {
			case 0:
				m.UpdateOption(dhcpv4.OptParameterRequestList(dhcpv4.OptionSubnetMask, dhcpv4.OptionRouter, dhcpv4.OptionDomainNameServer, dhcpv4.OptionInterfaceMTU,
					dhcpv4.OptionTFTPServerName, dhcpv4.OptionBootfileName, dhcpv4.OptionIPv6OnlyPreferred, dhcpv4.OptionDNSDomainSearchList, dhcpv4.OptionClasslessStaticRoute))
			case 1:
				m.UpdateOption(dhcpv4.OptParameterRequestList())
			}
			if t.Draw(3) == 0 {
				m.UpdateOption(dhcpv4.OptGeneric(dhcpv4.OptionAutoConfigure, []byte{1}))
			}
			w.send4(c, m, mt.String())
		})
	}
}

func (s *confswarm) OnInvoke(w *World, dg *DG, inv *Invocation) {
	if inv.RT != "" {
		w.Violate("C19", "reply-does-not-round-trip/"+inv.Plugin, "configuration `%s %s` was accepted at start-up, but the response returned by %s for dg%d %s", s.plugin, strings.Join(s.args, " "), inv.Plugin, dg.ID, inv.RT)
	} else if !inv.RespNil {
		w.Probe("confswarm.reply_round_trips")
	}
}

func (s *confswarm) OnReply(w *World, dg *DG, r *Reply) {
	if r.ParseErr != nil {
		w.Violate("C19", "reply-unparseable-on-wire", "configuration `%s %s` was accepted at start-up, but the reply to dg%d does not parse: %v", s.plugin, strings.Join(s.args, " "), dg.ID, r.ParseErr)
		return
	}
	s.honoured4(w, dg, r)
}

// honoured4: "arguments that cannot be honoured on the wire are rejected at start-up". For the DHCPv4 plugins whose
// arguments are plain addresses, when the reply carries the plugin's option, the option must be the encoding of the
// accepted arguments, computed here independently (every argument an IPv4 address, 4 bytes each). An accepted
// argument with no such encoding, or an option that says something else than the arguments, is a violation.
func (s *confswarm) honoured4(w *World, dg *DG, r *Reply) {
	if s.v6 || r.Msg4 == nil || len(s.args) == 0 {
		return
	}
	var code uint8
	switch s.plugin {
	case "router":
		code = 3
	case "dns":
		code = 6
	case "netmask":
		code = 1
	default:
		return
	}
	ran := false
	for _, inv := range dg.Invs {
		if inv.Plugin == s.plugin && !inv.RespNil {
			ran = true
		}
	}
	got, has := r.Msg4.Options[code]
	if !ran || !has {
		return
	}
	// repeated addresses may be sent once or as often as configured: both honour the arguments (C17 is the property
	// that is strict about the exact value)
	dedup := func(b []byte) string {
		var out []byte
		seen := map[string]bool{}
		for i := 0; i+4 <= len(b); i += 4 {
			if k := string(b[i : i+4]); !seen[k] {
				seen[k] = true
				out = append(out, b[i:i+4]...)
			}
		}
		if len(b)%4 != 0 {
			out = append(out, b[len(b)-len(b)%4:]...)
		}
		return string(out)
	}
	var want []byte
	for _, a := range strings.Fields(strings.Join(s.args, " ")) { // the arguments as the configuration file delivers them
		ip := net.ParseIP(a).To4()
		if ip == nil {
			w.Violate("C19", "accepted-argument-not-on-the-wire/"+s.plugin, "configuration `%s %s` was accepted at start-up, but %q is not an IPv4 address and cannot be carried in option %d (the reply to dg%d has % x there)", s.plugin, strings.Join(s.args, " "), a, code, dg.ID, got)
			return
		}
		want = append(want, ip...)
	}
	if dedup(got) != dedup(want) {
		w.Violate("C19", "accepted-argument-not-on-the-wire/"+s.plugin, "configuration `%s %s` was accepted at start-up; option %d of the reply to dg%d is % x, the arguments encode to % x", s.plugin, strings.Join(s.args, " "), code, dg.ID, got, want)
		return
	}
	w.Probe("confswarm.arguments_on_the_wire")
}
