// Package netsim runs the whole coredhcp server — the real Serve loops, the real
// HandleMsg4/HandleMsg6, the real plugin loader and plugins, the real
// allocators and the real sqlite lease store — inside one process under the
// simrt scheduler, surrounded by a simulated network of DHCP clients, relays,
// a datagram mutator, an operator editing lease files, and crash/restart.
// Oracles observe datagrams in and datagrams out (DESIGN.md §2.3, §8).
package netsim

import (
	"fmt"
	"io"
	"net"
	"os"
	"path/filepath"
	"sort"
	"strings"

	"github.com/insomniacslk/dhcp/dhcpv4"
	"github.com/insomniacslk/dhcp/dhcpv6"

	"github.com/coredhcp/coredhcp/config"
	"github.com/coredhcp/coredhcp/handler"
	"github.com/coredhcp/coredhcp/logger"
	"github.com/coredhcp/coredhcp/server"
	"github.com/coredhcp/coredhcp/zzverif/report"
	"github.com/coredhcp/coredhcp/zzverif/simrt"
	"github.com/sirupsen/logrus"
)

// Options of one run.
type Options struct {
	Prop     string
	Scenario string
	Seed     uint64
	Replay   []uint32
	Known    bool
	Trace    bool
	Full     bool
	Race     bool
}

// PluginConf is one configured plugin.
type PluginConf struct {
	Name string
	Args []string
}

func (p PluginConf) String() string { return p.Name + " " + strings.Join(p.Args, " ") }

// ListenerSpec describes one listener of the server.
type ListenerSpec struct {
	V6      bool
	IfIndex int    // interface it is bound to (listen address with a zone); 0 = unbound
	Addr    net.IP // listen address; nil = the wildcard address (DHCPv6 bound to an interface: ff02::1:2, as the default configuration does)
	Port    int    // 0 = 67 / 547
	Zone    string // set when the listeners come from a configuration file
}

// listenAddr is the net.UDPAddr the configuration carries for a listener.
func (w *World) listenAddr(ls ListenerSpec) net.UDPAddr {
	a := net.UDPAddr{IP: ls.Addr, Port: ls.Port, Zone: ls.Zone}
	if a.Port == 0 {
		a.Port = 67
		if ls.V6 {
			a.Port = 547
		}
	}
	if a.Zone == "" && ls.IfIndex != 0 {
		a.Zone = w.iface(ls.IfIndex).Name
	}
	if a.IP == nil {
		switch {
		case !ls.V6:
			a.IP = net.IPv4zero
		case ls.IfIndex != 0:
			a.IP = net.ParseIP("ff02::1:2")
		default:
			a.IP = net.IPv6unspecified
		}
	}
	return a
}

// DG is one datagram sent towards the server.
type DG struct {
	ID            int64
	L             int // listener index
	Port          int // socket it was queued on
	V6            bool
	Bytes         []byte
	Src           net.UDPAddr
	IfIndex       int
	Kind          string
	Actor         int // client index (-1: none)
	Req4          *dhcpv4.DHCPv4
	Req6          dhcpv6.DHCPv6
	ParseErr      error
	SentAt        int64
	Dropped       bool
	Delivered     bool
	DeliveredAt   int64
	DeliveredStep int64
	Inc           int
	Call          int64
	Ret           int64
	Handled       bool // handler task ended
	Killed        bool // handler (or queue) died in a crash
	Replies       []*Reply
	DupOf         int64
	Mutated       bool
	Meta          interface{}
	Invs          []*Invocation
}

// Reply is one datagram (or frame) the server sent.
type Reply struct {
	Cap      *simrt.Capture
	Msg4     *dhcpv4.DHCPv4
	Msg6     dhcpv6.DHCPv6
	ParseErr error
	Frame    *L2Frame
	Seq      int64
}

type scenario interface {
	Name() string
	Plan(w *World)
	OnStarted(w *World, inc int, err string)
	OnInvoke(w *World, dg *DG, inv *Invocation)
	OnReply(w *World, dg *DG, r *Reply)
	OnHandled(w *World, dg *DG)
	OnCrash(w *World, inc int, t *simrt.Task)
	Finish(w *World)
}

type baseScenario struct{}

func (baseScenario) OnStarted(w *World, inc int, err string)    {}
func (baseScenario) OnReply(w *World, dg *DG, r *Reply)         {}
func (baseScenario) OnInvoke(w *World, dg *DG, inv *Invocation) {}
func (baseScenario) OnHandled(w *World, dg *DG)                 {}
func (baseScenario) OnCrash(w *World, inc int, t *simrt.Task)   {}
func (baseScenario) Finish(w *World)                            {}

// World is everything outside the server.
type World struct {
	O             Options
	Sim           *simrt.Sim
	T             *simrt.Tape
	Dir           string
	sc            scenario
	Chain4        []PluginConf
	Chain6        []PluginConf
	Has4          bool
	Has6          bool
	UseConfigFile bool
	WaitReturned  []int // incarnations whose Servers.Wait returned
	unservedV6    bool  // protocol of the listener named by the last listener-not-served/opened finding
	ConfigText    string
	Ifaces        []simrt.Iface
	LSpecs        []ListenerSpec
	ports         []int
	Inc           int
	StartErr      []string // per incarnation (index inc-1)
	Started       []bool
	LogLevel      logrus.Level

	nextDG    int64
	DGs       []*DG
	dgByID    map[int64]*DG
	Findings  []report.Finding
	Notes     []report.Finding
	Probes    map[string]int64
	Hist      []string
	stateHash uint64

	// transport faults (percent)
	DropPct, DupPct, CorruptPct int
	DelayMaxNs                  int64
	FaultsOn                    bool
	Replies                     int
	Delivered                   int
	Discard                     string
	wrapLog                     bool
	handlers4                   []handler.Handler4
	handlers6                   []handler.Handler6
	userRecs                    []simrt.UserRec
	Logged                      []*LogLine
}

// Probe bumps a named reach counter.
func (w *World) Probe(name string) { w.Probes[name]++ }

// Violate records a finding of the property under check; findings for other properties become notes.
func (w *World) Violate(prop, class, format string, a ...interface{}) {
	f := report.Finding{Property: prop, Class: class, Detail: fmt.Sprintf(format, a...)}
	if w.O.Prop == "C16" && (prop == "C02" || prop == "C03" || prop == "C04" || prop == "C08" || prop == "C09" || prop == "C10") {
		// C16: the lease guarantees keep holding under concurrent load
		f = report.Finding{Property: "C16", Class: "lease-guarantee/" + prop + "/" + class, Detail: f.Detail}
		prop = "C16"
	}
	if w.O.Prop == "C13" && prop == "C01" && w.O.Scenario == "chain" && (strings.HasPrefix(class, "panic/server/handle.go") || strings.HasPrefix(class, "panic/plugins/plugin.go")) {
		// C13: the handlers instantiated are exactly the listed plugins that support the protocol (a nil entry panics here)
		f = report.Finding{Property: "C13", Class: "handler-list/" + class, Detail: "configuration: " + w.describeChains() + "\n" + f.Detail}
		prop = "C13"
	}
	if (w.O.Prop == "C13" || w.O.Prop == "C12" && w.unservedV6) && prop == "C01" && (class == "listener-not-served" || class == "listener-not-opened") {
		// C13: for every request the handlers are invoked in order (every listener of a protocol serves the same chain,
		// an empty chain still sends the skeleton reply); C12: every supported client message is answered
		f = report.Finding{Property: w.O.Prop, Class: "request-never-dispatched/" + class, Detail: f.Detail}
		prop = w.O.Prop
	}
	if w.O.Prop == "C19" && prop == "C01" {
		// C19: a configuration accepted at start-up (or being set up) must not take the server down
		f = report.Finding{Property: "C19", Class: "crash/" + class, Detail: "configuration: " + w.describeChains() + "\n" + f.Detail}
		prop = "C19"
	}
	if w.O.Prop == "C16" && (prop == "C11" || prop == "C12") {
		// C16: replies keep matching their request while receive buffers are recycled between datagrams
		f = report.Finding{Property: "C16", Class: "reply-attribution/" + prop + "/" + class, Detail: f.Detail}
		prop = "C16"
	}
	if prop == w.O.Prop {
		w.Findings = append(w.Findings, f)
		if len(w.Findings) >= 20 {
			w.Sim.Stop("many findings")
		}
	} else {
		w.Notes = append(w.Notes, f)
	}
}

func (w *World) hist(format string, a ...interface{}) {
	if len(w.Hist) < 400 {
		w.Hist = append(w.Hist, fmt.Sprintf("t=%.3fs ", float64(w.Sim.Now())/1e9)+fmt.Sprintf(format, a...))
	}
}

func (w *World) mixState(parts ...uint64) {
	h := w.stateHash
	if h == 0 {
		h = 1469598103934665603
	}
	for _, p := range parts {
		h = (h ^ p) * 1099511628211
	}
	w.stateHash = h
}

func hashBytes(b []byte) uint64 {
	h := uint64(1469598103934665603)
	for _, c := range b {
		h = (h ^ uint64(c)) * 1099511628211
	}
	return h
}

// ---------------------------------------------------------------------------
// server

type fatalExit struct{ code int }

func (f fatalExit) String() string {
	return fmt.Sprintf("log.Fatal/os.Exit(%d) called by the server", f.code)
}

func (w *World) buildConfig(inc int, specs []ListenerSpec) (*config.Config, error) {
	if w.UseConfigFile {
		p := filepath.Join(w.Dir, fmt.Sprintf("config-%d.yml", inc))
		if err := os.WriteFile(p, []byte(w.ConfigText), 0o644); err != nil {
			return nil, err
		}
		return config.Load(p)
	}
	c := config.New()
	mk := func(chain []PluginConf) *config.ServerConfig {
		sc := &config.ServerConfig{}
		for _, p := range chain {
			sc.Plugins = append(sc.Plugins, config.PluginConfig{Name: p.Name, Args: append([]string(nil), p.Args...)})
		}
		return sc
	}
	if w.Has4 {
		c.Server4 = mk(w.Chain4)
	}
	if w.Has6 {
		c.Server6 = mk(w.Chain6)
	}
	for _, ls := range specs {
		switch {
		case ls.V6 && c.Server6 != nil:
			c.Server6.Addresses = append(c.Server6.Addresses, w.listenAddr(ls))
		case !ls.V6 && c.Server4 != nil:
			c.Server4.Addresses = append(c.Server4.Addresses, w.listenAddr(ls))
		}
	}
	return c, nil
}

func (w *World) iface(idx int) net.Interface {
	for _, i := range w.Ifaces {
		if i.Index == idx {
			return net.Interface{Index: i.Index, Name: i.Name, HardwareAddr: i.MAC, Flags: i.Flags, MTU: i.MTU}
		}
	}
	return net.Interface{}
}

// startResult is what the "main" task of an incarnation reports back. Task-context harness code never writes
// World fields directly: the scheduler side may have read them earlier and there is, on purpose, no
// happens-before edge from the scheduler to tasks (the race detector would rightly object).
type startResult struct {
	Inc     int
	Err     string
	Started bool
	LSpecs  []ListenerSpec // set when the listeners come from the configuration file
}

// waitResult is reported when Servers.Wait returns (a listener failed and the others were closed).
type waitResult struct {
	Inc int
	Err string
}

// serverMain is the body of the "main" task of one incarnation, the same two calls cmds/coredhcp makes after
// loading the configuration: the real server.Start (plugin loader, listen4/listen6 on simulated sockets, one Serve
// goroutine per listener) and then Servers.Wait.
func (w *World) serverMain(inc int, useFile bool, specs []ListenerSpec) {
	res := &startResult{Inc: inc}
	conf, err := w.buildConfig(inc, specs)
	if err != nil {
		res.Err = "config: " + err.Error()
		simrt.UserLog(res)
		return
	}
	if useFile {
		// listeners as configured; Start opens the DHCPv6 ones first
		specs = []ListenerSpec{}
		add := func(sc *config.ServerConfig, v6 bool) {
			if sc == nil {
				return
			}
			for _, a := range sc.Addresses {
				ls := ListenerSpec{V6: v6, Addr: a.IP, Port: a.Port, Zone: a.Zone}
				if a.Zone != "" {
					if ifi, err := simrt.InterfaceByName(a.Zone); err == nil {
						ls.IfIndex = ifi.Index
					}
				}
				specs = append(specs, ls)
			}
		}
		add(conf.Server6, true)
		add(conf.Server4, false)
		res.LSpecs = specs
	}
	srv, err := server.Start(conf)
	if err != nil {
		res.Err = err.Error()
		simrt.UserLog(res)
		return
	}
	res.Started = true
	simrt.UserLog(res)
	// the start-up task ends here (that is what tells the world the server is up); Wait runs in a task of its own
	simrt.Go(-1, func() {
		simrt.SetKind("wait")
		wr := &waitResult{Inc: inc}
		if err := srv.Wait(); err != nil {
			wr.Err = err.Error()
		}
		simrt.UserLog(wr)
	})
}

// bindPorts matches the sockets the incarnation opened to the listener specs, by what each socket was bound to
// (protocol, interface, address, port) and not by the order in which Start happened to open them.
func (w *World) bindPorts() {
	w.ports = make([]int, len(w.LSpecs))
	for i := range w.ports {
		w.ports[i] = -1
	}
	used := map[int]bool{}
	for i, ls := range w.LSpecs {
		a := w.listenAddr(ls)
		for _, p := range w.Sim.Ports() {
			if p.Inc != w.Inc || used[p.ID] || p.V6 != ls.V6 || p.Port != a.Port || p.Zone != a.Zone || !net.IP(p.IP).Equal(a.IP) {
				continue
			}
			used[p.ID] = true
			w.ports[i] = p.ID
			break
		}
	}
}

// StartServer boots a new incarnation (scheduler context).
func (w *World) StartServer() {
	w.Inc++
	w.Sim.Inc = w.Inc
	w.StartErr = append(w.StartErr, "")
	w.Started = append(w.Started, false)
	for i := range w.ports {
		w.ports[i] = -1
	}
	inc, useFile, specs := w.Inc, w.UseConfigFile, append([]ListenerSpec(nil), w.LSpecs...)
	w.Sim.Spawn("main", func() { w.serverMain(inc, useFile, specs) })
	w.hist("server incarnation %d starts", w.Inc)
}

// Up reports whether the current incarnation finished start-up successfully.
func (w *World) Up() bool { return w.Inc > 0 && w.Started[w.Inc-1] }

// ---------------------------------------------------------------------------
// transport

// Send hands a datagram to the simulated network (scheduler context).
func (w *World) Send(li int, b []byte, src net.UDPAddr, ifindex int, kind string, actor int, meta interface{}) *DG {
	// ifindex is the interface the datagram arrives on. Whether the server learns it is up to the socket: the
	// simulated ReadFrom attaches a control message only if the server enabled one with SetControlMessage
	// (listen4/listen6 do that for listeners that are not bound to an interface).
	w.nextDG++
	dg := &DG{ID: w.nextDG, L: li, V6: w.LSpecs[li].V6, Bytes: b, Src: src, IfIndex: ifindex, Kind: kind, Actor: actor, SentAt: w.Sim.Now(), Meta: meta}
	w.DGs = append(w.DGs, dg)
	w.dgByID[dg.ID] = dg
	if dg.V6 {
		dg.Req6, dg.ParseErr = dhcpv6.FromBytes(b)
	} else {
		dg.Req4, dg.ParseErr = dhcpv4.FromBytes(b)
	}
	delay := int64(0)
	if w.FaultsOn {
		if w.DropPct > 0 && int(w.T.Draw(100)) < w.DropPct {
			dg.Dropped = true
			w.Sim.FaultsFired[simrt.FDrop]++
			w.hist("dg%d %s DROPPED by the network", dg.ID, kind)
			return dg
		}
		if w.DelayMaxNs > 0 && w.T.Draw(3) == 1 {
			delay = int64(w.T.Draw(uint32(w.DelayMaxNs/1000))) * 1000
			w.Sim.FaultsFired[simrt.FDelay]++
		}
		if w.DupPct > 0 && int(w.T.Draw(100)) < w.DupPct {
			w.Sim.FaultsFired[simrt.FDup]++
			w.nextDG++
			d2 := *dg
			d2.ID = w.nextDG
			d2.DupOf = dg.ID
			d2.Kind = kind + "(dup)"
			d2.Replies = nil
			dd := &d2
			w.DGs = append(w.DGs, dd)
			w.dgByID[dd.ID] = dd
			extra := int64(w.T.Draw(2000)) * 1000
			w.Sim.After(delay+extra, func() { w.deliver(dd) })
		}
	}
	w.Sim.After(delay, func() { w.deliver(dg) })
	return dg
}

func (w *World) deliver(dg *DG) {
	if !w.Up() && w.Inc > 0 && w.StartErr[w.Inc-1] == "" {
		// still starting: a socket that is already bound receives all the same (clients retransmit while the server
		// restarts); whatever reads it must already serve the configured chain
		w.drainUserLog()
		if !w.Up() {
			w.bindPorts()
			if dg.L < len(w.ports) && w.ports[dg.L] >= 0 && w.Sim.PortOpen(w.ports[dg.L]) {
				w.Probe("world.delivered_during_startup")
				w.deliverTo(dg)
				return
			}
		}
	}
	if dg.L >= len(w.ports) || w.ports[dg.L] < 0 || !w.Up() || !w.Sim.PortOpen(w.ports[dg.L]) {
		dg.Dropped = true
		w.hist("dg%d %s lost: server not listening", dg.ID, dg.Kind)
		return
	}
	w.deliverTo(dg)
}

func (w *World) deliverTo(dg *DG) {
	dg.Delivered = true
	dg.Port = w.ports[dg.L]
	dg.DeliveredAt = w.Sim.Now()
	dg.DeliveredStep = w.Sim.Steps
	dg.Inc = w.Inc
	dg.Call = simrt.NextSeq()
	w.Delivered++
	dst := w.listenAddr(w.LSpecs[dg.L]).IP
	if dst.IsUnspecified() {
		// sent to the limited broadcast address / the All_DHCP_Relay_Agents_and_Servers group
		dst = net.IPv4bcast.To4()
		if dg.V6 {
			dst = net.ParseIP("ff02::1:2")
		}
	}
	w.Sim.Inject(w.ports[dg.L], simrt.Datagram{ID: dg.ID, Bytes: dg.Bytes, SrcIP: dg.Src.IP, SrcPort: dg.Src.Port, SrcZone: dg.Src.Zone, IfIndex: dg.IfIndex, DstIP: dst})
	w.hist("dg%d -> listener %d: %s", dg.ID, dg.L, dg.Kind)
}

// LogLine is a warning or error the server logged (captured by a logrus hook, in task context).
type LogLine struct {
	Level string
	Msg   string
}

type logHook struct{}

var hooked bool

func (logHook) Levels() []logrus.Level {
	return []logrus.Level{logrus.ErrorLevel, logrus.WarnLevel}
}

func (logHook) Fire(e *logrus.Entry) error {
	simrt.UserLog(&LogLine{Level: e.Level.String(), Msg: e.Message})
	return nil
}

// drainUserLog hands handler-level observations (logged by the observer around every plugin handler) to the scenario.
func (w *World) drainUserLog() {
	for _, u := range w.Sim.TakeUserLog() {
		if sr, ok := u.Rec.(*startResult); ok {
			if sr.Inc == w.Inc {
				w.StartErr[sr.Inc-1] = sr.Err
				w.Started[sr.Inc-1] = sr.Started
				if sr.LSpecs != nil {
					w.LSpecs = sr.LSpecs
				}
				w.bindPorts()
				if sr.Started {
					for i, ls := range w.LSpecs {
						if w.ports[i] < 0 && (w.UseConfigFile || ls.V6 && w.Has6 || !ls.V6 && w.Has4) {
							w.unservedV6 = ls.V6
							w.Violate("C01", "listener-not-opened", "Start reported success but no socket is bound for the configured listener %d %+v (%v): requests sent there are never handled", i, ls, func() string { a := w.listenAddr(ls); return a.String() }())
							break
						}
					}
				}
			}
			continue
		}
		if wr, ok := u.Rec.(*waitResult); ok {
			w.hist("incarnation %d: Servers.Wait returned: %s", wr.Inc, wr.Err)
			w.WaitReturned = append(w.WaitReturned, wr.Inc)
			continue
		}
		if ll, ok := u.Rec.(*LogLine); ok {
			w.hist("server log [%s] (dg%d): %s", ll.Level, u.Tag, ll.Msg)
			w.Logged = append(w.Logged, ll)
			continue
		}
		inv, ok := u.Rec.(*Invocation)
		if !ok {
			w.userRecs = append(w.userRecs, u)
			continue
		}
		inv.DG = u.Tag
		inv.At = u.Now
		inv.Step = u.Step
		dg := w.dgByID[u.Tag]
		if dg != nil {
			dg.Invs = append(dg.Invs, inv)
		}
		if inv.Builtin && inv.RespNil && !inv.Stop {
			w.Violate("C13", "nil-without-stop", "built-in plugin %s returned a nil response without signalling stop (dg%d)", inv.Plugin, u.Tag)
		}
		w.sc.OnInvoke(w, dg, inv)
	}
}

func (w *World) onCapture(c *simrt.Capture) {
	w.drainUserLog()
	w.Replies++
	r := &Reply{Cap: c, Seq: simrt.NextSeq()}
	dg := w.dgByID[c.Datagram]
	payload := c.Bytes
	if c.L2 {
		fr, err := parseL2(c.Bytes)
		if err != nil {
			r.ParseErr = err
		} else {
			r.Frame = fr
			payload = fr.Payload
		}
	}
	if r.ParseErr == nil {
		if c.V6 {
			r.Msg6, r.ParseErr = dhcpv6.FromBytes(payload)
		} else {
			r.Msg4, r.ParseErr = dhcpv4.FromBytes(payload)
		}
	}
	if dg == nil {
		w.Violate("C11", "unattributed-reply", "the server sent a datagram that no received datagram accounts for (task %d): %x", c.Task, clipB(c.Bytes, 64))
		if c.V6 {
			w.Violate("C12", "unattributed-reply", "the server sent a datagram that no received datagram accounts for (task %d)", c.Task)
		}
		return
	}
	dg.Replies = append(dg.Replies, r)
	if dg.Ret == 0 {
		dg.Ret = r.Seq
	}
	if len(dg.Replies) > 1 {
		w.Violate("C01", "two-replies", "datagram dg%d (%s) was answered %d times", dg.ID, dg.Kind, len(dg.Replies))
		if dg.V6 {
			w.Violate("C12", "two-replies", "datagram dg%d (%s) was answered %d times", dg.ID, dg.Kind, len(dg.Replies))
		} else {
			w.Violate("C11", "two-replies", "datagram dg%d (%s) was answered %d times", dg.ID, dg.Kind, len(dg.Replies))
		}
	}
	w.mixState(uint64(dg.ID), hashBytes(c.Bytes), uint64(c.IfIndex))
	w.hist("dg%d <- reply %s", dg.ID, w.replySummary(r))
	w.sc.OnReply(w, dg, r)
}

func clipB(b []byte, n int) []byte {
	if len(b) > n {
		return b[:n]
	}
	return b
}

func (w *World) replySummary(r *Reply) string {
	dst := net.IP(r.Cap.DstIP).String()
	if r.Cap.L2 {
		dst = "L2 " + net.HardwareAddr(r.Cap.DstMAC).String()
	}
	cm := "-"
	if r.Cap.HasCM {
		cm = fmt.Sprint(r.Cap.IfIndex)
	}
	switch {
	case r.ParseErr != nil:
		return fmt.Sprintf("unparsable (%v) to %s", r.ParseErr, dst)
	case r.Msg4 != nil:
		return fmt.Sprintf("%s yiaddr=%s to %s:%d if=%s", r.Msg4.MessageType(), r.Msg4.YourIPAddr, dst, r.Cap.DstPort, cm)
	case r.Msg6 != nil:
		return fmt.Sprintf("%s to [%s]:%d if=%s", r.Msg6.Type(), dst, r.Cap.DstPort, cm)
	}
	return "?"
}

// onTagDone: no task and no queued message of the server works for the datagram any more - it was handled
// (answered, dropped, or given up), whatever goroutine structure did the handling.
func (w *World) onTagDone(tag int64) {
	w.drainUserLog()
	dg := w.dgByID[tag]
	if dg == nil || dg.Handled || dg.Killed {
		return
	}
	dg.Handled = true
	if dg.Ret == 0 {
		dg.Ret = simrt.NextSeq()
	}
	if len(dg.Replies) == 0 {
		w.mixState(uint64(dg.ID), 0)
		w.hist("dg%d handled, no reply", dg.ID)
	}
	w.sc.OnHandled(w, dg)
}

func (w *World) onTaskEnd(t *simrt.Task) {
	w.drainUserLog()
	if t.Kind == "main" && t.Inc == w.Inc {
		err := w.StartErr[t.Inc-1]
		if err != "" {
			w.hist("server incarnation %d failed to start: %s", t.Inc, err)
		} else if w.Started[t.Inc-1] {
			w.hist("server incarnation %d is up", t.Inc)
		}
		w.sc.OnStarted(w, t.Inc, err)
	}
}

// Crash is called by the scheduler after a simulated crash killed incarnation inc.
func (w *World) onCrash(t *simrt.Task) {
	w.drainUserLog()
	inc := t.Inc
	w.hist("CRASH of incarnation %d in task %d (%s) at %s", inc, t.ID, t.Kind, simrt.SiteName(t.LastSite))
	for _, dg := range w.DGs {
		if dg.Delivered && dg.Inc == inc && !dg.Handled {
			dg.Killed = true
		}
	}
	w.sc.OnCrash(w, inc, t)
}

// ---------------------------------------------------------------------------
// run

var scenarios = map[string]func() scenario{}

func registerScenario(name string, f func() scenario) { scenarios[name] = f }

// ScenarioNames lists the registered presets.
func ScenarioNames() []string {
	var n []string
	for k := range scenarios {
		n = append(n, k)
	}
	sort.Strings(n)
	return n
}

func drawSchedCfg(t *simrt.Tape) simrt.Config {
	cfg := simrt.Config{MaxTaskYields: 400000, MaxSteps: 6000000}
	switch t.Draw(6) {
	case 0: // serial
	case 1:
		cfg.SyncPreempt = 4
	case 2:
		cfg.PreemptMean = 4
		cfg.SyncPreempt = 2
	case 3:
		cfg.PreemptMean = 25
		cfg.SyncPreempt = 1
	case 4:
		cfg.PreemptMean = 120
		cfg.SyncPreempt = 1
	default:
		cfg.PreemptMean = 10
		cfg.SyncPreempt = 2
		cfg.PCT = true
	}
	if cfg.SyncPreempt > 0 {
		// datagrams that arrive within a few milliseconds of each other overlap in the server
		cfg.TimeSkip = 1 + int(t.Draw(3))
		cfg.MaxTimeSkipNs = 5e6
	}
	return cfg
}

// Run executes one simulated run.
func Run(o Options) report.Run {
	var tape *simrt.Tape
	if o.Replay != nil {
		tape = simrt.ReplayTape(o.Replay)
	} else {
		tape = simrt.NewTape(o.Seed)
	}
	out := report.Run{Seed: o.Seed, Engine: "netsim", Property: o.Prop, Scenario: o.Scenario, Known: o.Known}
	mk := scenarios[o.Scenario]
	if mk == nil {
		out.Discarded = "unknown scenario " + o.Scenario
		return out
	}
	dir, err := os.MkdirTemp("/dev/shm", "verif-run-")
	if err != nil {
		fmt.Fprintln(os.Stderr, "netsim: cannot create run directory:", err)
		os.Exit(2)
	}
	defer os.RemoveAll(dir)
	w := &World{O: o, T: tape, Dir: dir, dgByID: map[int64]*DG{}, Probes: map[string]int64{}, LogLevel: logrus.InfoLevel}
	w.sc = mk()
	cfg := drawSchedCfg(tape)
	sim := simrt.New(cfg, tape)
	sim.TraceOn = o.Trace
	w.Sim = sim
	sim.Hooks = simrt.Hooks{OnCapture: w.onCapture, OnTaskEnd: w.onTaskEnd, OnTagDone: w.onTagDone}
	w.sc.Plan(w)
	if raceEnabled {
		// no log line is formatted or written: logrus' own mutex must not order handlers by accident
		w.LogLevel = logrus.PanicLevel
	}
	w.ports = make([]int, len(w.LSpecs))
	sim.SetInterfaces(w.Ifaces)
	lg := logger.GetLogger("verif").Logger
	lg.SetOutput(io.Discard)
	lg.SetLevel(w.LogLevel)
	lg.ExitFunc = func(code int) { panic(fatalExit{code}) }
	if !hooked {
		hooked = true
		lg.AddHook(logHook{})
	}
	registerPlugins()
	w.StartServer()
	rr := sim.Run()
	w.afterRun(rr)
	if len(w.Findings) == 0 && !sim.Stopped() {
		w.sc.Finish(w)
	}
	sim.CloseAllDBs()
	// summary
	out.Desc = w.describe()
	out.Steps = sim.Steps
	out.Switches = sim.Switches
	out.SwitchHash = sim.SwitchHash()
	out.StateHash = w.stateHash
	out.SimNs = sim.Now()
	out.Incarnations = w.Inc
	out.Datagrams = w.Delivered
	out.Replies = w.Replies
	out.NonTrivial = w.Delivered >= 2
	out.Findings = w.Findings
	out.Notes = w.Notes
	out.FaultsOn = w.FaultsOn
	out.Discarded = w.Discard
	out.EndReason = rr.Reason
	out.Faults = map[string]int64{}
	for i, n := range sim.FaultsFired {
		if n > 0 {
			out.Faults[simrt.FaultNames[i]] = n
		}
	}
	out.Probes = w.Probes
	for i, n := range sim.Probes {
		if n > 0 && i < len(probeNames) && probeNames[i] != "" {
			out.Probes[probeNames[i]] += n
		}
	}
	out.Overrun = tape.Overrun
	if len(w.Findings) > 0 || o.Full {
		out.Sample = w.Hist
		out.Tape = tape.Rec
		if o.Trace {
			for _, tr := range sim.Trace() {
				out.Sample = append(out.Sample, fmt.Sprintf("  [step %d t=%d task %d] %s %s", tr.Step, tr.Now, tr.Task, tr.Kind, tr.Info))
			}
		}
	}
	sim.Detach()
	// the run directory has a random name: keep it out of everything that is reported
	scrub := func(x string) string { return strings.ReplaceAll(x, dir, "$RUN") }
	out.Desc = scrub(out.Desc)
	for i := range out.Sample {
		out.Sample[i] = scrub(out.Sample[i])
	}
	for i := range out.Findings {
		out.Findings[i].Detail = scrub(out.Findings[i].Detail)
	}
	for i := range out.Notes {
		out.Notes[i].Detail = scrub(out.Notes[i].Detail)
	}
	return out
}

var probeNames = []string{simrt.PLockContended: "sched.lock_contended", simrt.PClockRead: "clock.reads", simrt.PSleep: "sleep.parked", simrt.PMapRange: "map.range_shuffled",
	simrt.PChanRecvBlocked: "chan.recv_blocked", simrt.PSQLExec: "sql.exec", simrt.PFileReload: "", simrt.PFileReloadFail: "", simrt.PWatchLost: "fsnotify.watch_lost", simrt.PInotifyOverflow: "fsnotify.queue_overflow"}

// afterRun turns the way a simulation phase ended into findings.
func (w *World) afterRun(rr simrt.RunResult) {
	for _, v := range w.Sim.Verdicts {
		w.Violate(v.Property, v.Class, "%s", v.Detail)
		if v.Property != w.O.Prop && w.Discard == "" && !(w.O.Prop == "C19" && v.Property == "C01") && !(w.O.Prop == "C13" && v.Property == "C01" && w.O.Scenario == "chain") {
			// a crash or hang met while checking another property: this run cannot speak about it
			w.Discard = v.Property + "/" + v.Class
		}
	}
	w.Sim.Verdicts = nil
	if rr.Reason == "wedge" {
		var sb strings.Builder
		for _, t := range w.Sim.LiveBlocked() {
			fmt.Fprintf(&sb, " task %d (%s, dg%d) at %s;", t.ID, t.Kind, t.Tag, simrt.SiteName(t.LastSite))
		}
		w.Violate("C01", "wedge", "server tasks are blocked forever on a lock with nothing left to run:%s", sb.String())
	}
	if rr.Reason == "quiescent" && !w.Sim.Stopped() {
		// nothing is left to run: every datagram that reached a socket of the live incarnation has to be done with
		for _, dg := range w.DGs {
			if !dg.Delivered || dg.Handled || dg.Killed || dg.Inc != w.Inc || !w.Up() {
				continue
			}
			queued := w.Sim.PortQueued(dg.Port, dg.ID)
			if queued && !w.Sim.PortOpen(dg.Port) {
				continue // the socket was closed (injected fault) before the datagram was read: lost, legitimately
			}
			if queued {
				w.unservedV6 = dg.V6
				w.Violate("C01", "listener-not-served", "dg%d (%s) was delivered to listener %d %+v at t=%.3fs and is still queued on its socket with the server idle: no receive loop reads that socket", dg.ID, dg.Kind, dg.L, w.LSpecs[dg.L], float64(dg.DeliveredAt)/1e9)
			} else {
				var sb strings.Builder
				for _, t := range w.Sim.TagCarriers(dg.ID) {
					fmt.Fprintf(&sb, " task %d (%s) at %s;", t.ID, t.Kind, simrt.SiteName(t.LastSite))
				}
				w.Violate("C01", "handler-never-returns", "dg%d (%s) was read by the server but its handling never finished, and nothing is left to run; still working for it:%s", dg.ID, dg.Kind, sb.String())
			}
			break
		}
	}
}

func (w *World) describeChains() string {
	var sb strings.Builder
	for _, p := range w.Chain4 {
		sb.WriteString(" v4[" + p.String() + "]")
	}
	for _, p := range w.Chain6 {
		sb.WriteString(" v6[" + p.String() + "]")
	}
	return sb.String()
}

func (w *World) describe() string {
	var sb strings.Builder
	if w.Has4 {
		sb.WriteString("server4:")
		for _, p := range w.Chain4 {
			sb.WriteString(" [" + p.String() + "]")
		}
	}
	if w.Has6 {
		sb.WriteString(" server6:")
		for _, p := range w.Chain6 {
			sb.WriteString(" [" + p.String() + "]")
		}
	}
	fmt.Fprintf(&sb, " listeners=%v sched=%+v", w.LSpecs, w.Sim.Cfg)
	return sb.String()
}

func os_stderr() *os.File { return os.Stderr }
