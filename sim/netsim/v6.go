package netsim

import (
	"fmt"
	"net"

	"github.com/insomniacslk/dhcp/dhcpv6"
	"github.com/insomniacslk/dhcp/iana"

	"github.com/coredhcp/coredhcp/zzverif/simrt"
)

// Client6 is a DHCPv6 client identity.
type Client6 struct {
	ID        int
	DUID      dhcpv6.DUID
	MAC       net.HardwareAddr
	Link      int
	LL        net.IP // link-local source address
	Global    net.IP // global source address (used when SrcGlobal)
	SrcGlobal bool
	Relays    []RelayLayer // outermost first
	ORO       []dhcpv6.OptionCode
	HasORO    bool
	Sent      int
}

// RelayLayer is one Relay-Forward encapsulation.
type RelayLayer struct {
	HopCount    uint8
	Link, Peer  net.IP
	InterfaceID []byte // nil = absent
	RemoteID    []byte
	Extra       []dhcpv6.Option
	Src         net.IP // address of the relay (source of the datagram for the outermost layer)
	SrcPort     int    // UDP source port of the relay (0 = 547)
}

func (c *Client6) String() string { return fmt.Sprintf("v6c%d[%s]", c.ID, c.DUID) }

// drawDUID draws a DUID of every kind.
func drawDUID(t *simrt.Tape, mac net.HardwareAddr, id int) dhcpv6.DUID {
	switch t.Draw(6) {
	case 0:
		return &dhcpv6.DUIDLLT{HWType: iana.HWTypeEthernet, Time: uint32(t.Draw(1 << 30)), LinkLayerAddr: append(net.HardwareAddr(nil), mac...)}
	case 1:
		b := make([]byte, t.Range(1, 12))
		t.Bytes(b)
		b[len(b)-1] = byte(id)
		return &dhcpv6.DUIDEN{EnterpriseNumber: uint32(t.Draw(1 << 20)), EnterpriseIdentifier: b}
	case 2:
		var u [16]byte
		t.Bytes(u[:])
		u[15] = byte(id)
		return &dhcpv6.DUIDUUID{UUID: u}
	case 3:
		b := make([]byte, t.Range(0, 10))
		t.Bytes(b)
		b = append(b, byte(id))
		return &dhcpv6.DUIDOpaque{Type: dhcpv6.DUIDType(5 + t.Draw(200)), Data: b}
	default:
		return &dhcpv6.DUIDLL{HWType: iana.HWTypeEthernet, LinkLayerAddr: append(net.HardwareAddr(nil), mac...)}
	}
}

func llFromMAC(mac net.HardwareAddr) net.IP {
	ip := make(net.IP, 16)
	ip[0], ip[1] = 0xfe, 0x80
	if len(mac) >= 6 {
		ip[8] = mac[0] ^ 2
		ip[9], ip[10], ip[11], ip[12] = mac[1], mac[2], 0xff, 0xfe
		ip[13], ip[14], ip[15] = mac[3], mac[4], mac[5]
	}
	return ip
}

func newClient6(t *simrt.Tape, id int, link int) *Client6 {
	mac := drawMAC(t, 6, id+1)
	c := &Client6{ID: id, MAC: mac, Link: link, LL: llFromMAC(mac)}
	c.DUID = drawDUID(t, mac, id+1)
	c.Global = net.ParseIP(fmt.Sprintf("2001:db8:c::%x", id+1))
	return c
}

// build6 constructs a client message without real randomness.
func (w *World) build6(c *Client6, mt dhcpv6.MessageType) *dhcpv6.Message {
	m := &dhcpv6.Message{MessageType: mt}
	w.T.Bytes(m.TransactionID[:])
	if c.DUID != nil {
		m.AddOption(dhcpv6.OptClientID(c.DUID))
	}
	if c.HasORO {
		m.AddOption(dhcpv6.OptRequestedOption(c.ORO...))
	}
	return m
}

// encapsulate wraps m into the client's Relay-Forward layers (outermost first in layers).
func encapsulate(m dhcpv6.DHCPv6, layers []RelayLayer) dhcpv6.DHCPv6 {
	cur := m
	for i := len(layers) - 1; i >= 0; i-- {
		l := layers[i]
		r := &dhcpv6.RelayMessage{MessageType: dhcpv6.MessageTypeRelayForward, HopCount: l.HopCount, LinkAddr: l.Link, PeerAddr: l.Peer}
		r.AddOption(dhcpv6.OptRelayMessage(cur))
		if l.InterfaceID != nil {
			r.AddOption(dhcpv6.OptInterfaceID(l.InterfaceID))
		}
		if l.RemoteID != nil {
			r.AddOption(&dhcpv6.OptRemoteID{EnterpriseNumber: 9, RemoteID: l.RemoteID})
		}
		for _, o := range l.Extra {
			r.AddOption(o)
		}
		cur = r
	}
	return cur
}

func (w *World) ifName(idx int) string {
	for _, i := range w.Ifaces {
		if i.Index == idx {
			return i.Name
		}
	}
	return ""
}

// src6 is the source address the server sees.
func (w *World) src6(c *Client6) net.UDPAddr {
	if len(c.Relays) > 0 {
		r := c.Relays[0]
		port := 547
		if r.SrcPort != 0 {
			port = r.SrcPort // RFC 8357 relay source port, NAT66, a software relay on an ephemeral port
		}
		if r.Src != nil {
			if r.Src.IsLinkLocalUnicast() {
				return net.UDPAddr{IP: r.Src, Port: port, Zone: w.ifName(c.Link)}
			}
			return net.UDPAddr{IP: r.Src, Port: port}
		}
		return net.UDPAddr{IP: net.ParseIP("2001:db8:ffff::1"), Port: port}
	}
	if c.SrcGlobal {
		return net.UDPAddr{IP: c.Global, Port: 546}
	}
	return net.UDPAddr{IP: c.LL, Port: 546, Zone: w.ifName(c.Link)}
}

func (w *World) send6(c *Client6, m *dhcpv6.Message, kind string, meta ...interface{}) *DG {
	li := w.listenerFor(true, c.Link)
	if li < 0 {
		return nil
	}
	c.Sent++
	out := encapsulate(m, c.Relays)
	k := fmt.Sprintf("%s %s xid=%x", c, kind, m.TransactionID[:])
	if len(c.Relays) > 0 {
		k += fmt.Sprintf(" relayed x%d", len(c.Relays))
	}
	var mt interface{}
	if len(meta) > 0 {
		mt = meta[0]
	}
	return w.Send(li, out.ToBytes(), w.src6(c), c.Link, k, c.ID, mt)
}

func drawRelays(t *simrt.Tape, depth int, c *Client6) []RelayLayer {
	var ls []RelayLayer
	for i := 0; i < depth; i++ {
		l := RelayLayer{HopCount: uint8(depth - 1 - i)}
		l.Link = make(net.IP, 16)
		l.Peer = make(net.IP, 16)
		switch t.Draw(3) {
		case 0:
			copy(l.Link, net.ParseIP(fmt.Sprintf("2001:db8:%x::1", 0x100+i)))
		case 1:
			t.Bytes(l.Link)
		}
		if i == depth-1 {
			copy(l.Peer, c.LL)
		} else {
			t.Bytes(l.Peer)
		}
		if t.Draw(2) == 1 {
			l.InterfaceID = make([]byte, t.Range(1, 10))
			t.Bytes(l.InterfaceID)
		}
		if t.Draw(4) == 0 {
			l.RemoteID = make([]byte, t.Range(1, 8))
			t.Bytes(l.RemoteID)
		}
		if t.Draw(4) == 0 {
			l.Extra = append(l.Extra, &dhcpv6.OptionGeneric{OptionCode: dhcpv6.OptionCode(200 + t.Draw(50)), OptionData: []byte{byte(i), 7}})
		}
		ls = append(ls, l)
	}
	if depth > 0 {
		if t.Draw(3) == 0 {
			ls[0].SrcPort = 1024 + int(t.Draw(60000))
		}
		if t.Draw(3) == 0 {
			ls[0].Src = net.ParseIP("fe80::1:2")
		} else {
			ls[0].Src = net.ParseIP(fmt.Sprintf("2001:db8:ffff::%x", 1+t.Draw(200)))
		}
	}
	return ls
}
