//go:build !race

package netsim

const raceEnabled = false
