package netsim

import (
	"fmt"
	"net"
	"path/filepath"
	"sort"
	"strings"
	"time"

	"github.com/insomniacslk/dhcp/dhcpv4"
	"github.com/insomniacslk/dhcp/dhcpv6"
	"github.com/insomniacslk/dhcp/iana"

	"github.com/coredhcp/coredhcp/zzverif/simrt"
)

// static: the file plugin (static leases), with and without autorefresh, on an
// in-memory file system whose inotify/fsnotify behaviour is modelled after the
// real library. Oracle for C10.
type static struct {
	baseScenario
	has             [2]bool // [0]=v4 [1]=v6
	path            [2]string
	auto            [2]bool
	initial         [2]string
	initialOK       [2]bool
	versions        [2][]fileVersion
	scanned         int
	lastMod         [2]int64 // step of the last modification of the file
	lastModNow      [2]int64
	watchKilled     [2]bool
	editsAfterKill  [2]int
	readErrAfterMod [2]bool
	macs            []net.HardwareAddr
	clients4        []*Client4
	clients6        []*Client6
	dual            bool
	final           [2]string
	nEdits          int
	longLines       int
	noisy           bool
	noiseSeq        int
}

type fileVersion struct {
	step    int64
	mapping map[string]string // canonical mac -> canonical ip
	content string
}

func init() { registerScenario("static", func() scenario { return &static{} }) }

func (s *static) Name() string { return "static" }

// ---- lease file generator and independent parser ---------------------------

type macSpelling struct {
	text string
	hw   net.HardwareAddr
}

func spellMAC(t *simrt.Tape, hw net.HardwareAddr) string {
	hexs := func(sep string, upper bool) string {
		var p []string
		for _, b := range hw {
			if upper {
				p = append(p, fmt.Sprintf("%02X", b))
			} else {
				p = append(p, fmt.Sprintf("%02x", b))
			}
		}
		return strings.Join(p, sep)
	}
	switch t.Draw(5) {
	case 0:
		return hexs("-", false)
	case 1:
		return hexs(":", true)
	case 2:
		if len(hw)%2 == 0 {
			var p []string
			for i := 0; i < len(hw); i += 2 {
				p = append(p, fmt.Sprintf("%02x%02x", hw[i], hw[i+1]))
			}
			return strings.Join(p, ".")
		}
	}
	return hexs(":", false)
}

func spellIP(t *simrt.Tape, ip net.IP, v6 bool) string {
	if !v6 {
		return ip.To4().String()
	}
	switch t.Draw(3) {
	case 0:
		var p []string
		for i := 0; i < 16; i += 2 {
			p = append(p, fmt.Sprintf("%x", uint16(ip[i])<<8|uint16(ip[i+1])))
		}
		return strings.Join(p, ":") // uncompressed
	case 1:
		return strings.ToUpper(ip.String())
	}
	return ip.String()
}

// genLeaseFile draws a lease file; bad selects one malformation. It returns the text and the mapping it denotes
// (nil when malformed), computed here from the generator's own knowledge, not by parsing.
func (s *static) genLeaseFile(t *simrt.Tape, v6 bool, bad bool) (string, map[string]string) {
	var sb strings.Builder
	m := map[string]string{}
	n := t.Range(0, 8)
	badAt := -1
	if bad {
		badAt = t.Pick(n + 1)
	}
	line := 0
	emit := func(l string) { sb.WriteString(l + "\n") }
	for i := 0; i <= n; i++ {
		if t.Draw(5) == 0 {
			emit("# comment " + fmt.Sprint(i))
		}
		if t.Draw(6) == 0 {
			emit("")
		}
		if t.Draw(12) == 0 {
			// a very long comment line (around the 4 KiB and 64 KiB marks line-oriented readers trip over)
			n := []int{4095, 4096, 65534, 65535, 65536, 70000, 140000}[t.Pick(7)]
			emit("#" + strings.Repeat("x", n-1))
			s.longLines++
		}
		if i == badAt {
			hw := s.macs[t.Pick(len(s.macs))]
			ip := s.ipFor(t, v6)
			switch t.Draw(6) {
			case 0:
				emit(spellMAC(t, hw)) // one field
			case 1:
				emit(spellMAC(t, hw) + " " + spellIP(t, ip, v6) + " extra")
			case 2:
				emit("zz:11:22:33:44:55 " + spellIP(t, ip, v6))
			case 3:
				emit("00:11:22:33:44 " + spellIP(t, ip, v6)) // 5-byte MAC: not a ParseMAC form
			case 4:
				emit(spellMAC(t, hw) + " not-an-ip")
			default:
				// wrong address family (an IPv4 address spelled as IPv4-mapped IPv6 is still IPv4), or a zoned literal
				other := spellIP(t, s.ipFor(t, !v6), !v6)
				if v6 {
					other = []string{other, "::ffff:192.0.2.9", "::ffff:c000:209", "fe80::1%eth0", other}[t.Pick(5)]
				}
				emit(spellMAC(t, hw) + " " + other)
			}
			continue
		}
		if i == n {
			break
		}
		hw := s.macs[t.Pick(len(s.macs))]
		ip := s.ipFor(t, v6)
		sep := []string{" ", "\t", "   ", " \t "}[t.Pick(4)]
		emit(spellMAC(t, hw) + sep + spellIP(t, ip, v6))
		m[hw.String()] = ip.String() // last occurrence wins
		line++
	}
	text := sb.String()
	if t.Draw(4) == 0 {
		text = strings.TrimSuffix(text, "\n") // no trailing newline
	}
	if bad {
		return text, nil
	}
	return text, m
}

func (s *static) ipFor(t *simrt.Tape, v6 bool) net.IP {
	if v6 {
		ip := net.ParseIP("2001:db8:5::")
		ip[15] = byte(1 + t.Draw(200))
		ip[13] = byte(t.Draw(3))
		return ip
	}
	return net.IP{10, 7, byte(t.Draw(3)), byte(1 + t.Draw(200))}.To4()
}

// parseLeases is the oracle's own reading of the grammar in the property (independent of the plugin):
// it returns nil for a file with any malformed line.
func parseLeases(text string, v6 bool) map[string]string {
	m := map[string]string{}
	for _, line := range strings.Split(text, "\n") {
		if line == "" || strings.HasPrefix(line, "#") {
			continue
		}
		f := strings.Fields(line)
		if len(f) != 2 {
			return nil
		}
		hw, ok := parseAnyMAC(f[0])
		if !ok {
			return nil
		}
		ip := net.ParseIP(f[1])
		if ip == nil {
			return nil
		}
		if v6 && ip.To4() != nil || !v6 && ip.To4() == nil {
			return nil
		}
		m[hw.String()] = ip.String()
	}
	return m
}

// parseAnyMAC accepts the spellings the generator produces (colon, dash: 6, 8 or 20 bytes; dotted groups of four).
func parseAnyMAC(s string) (net.HardwareAddr, bool) {
	var parts []string
	group := 2
	switch {
	case strings.Contains(s, ":"):
		parts = strings.Split(s, ":")
	case strings.Contains(s, "-"):
		parts = strings.Split(s, "-")
	case strings.Contains(s, "."):
		parts = strings.Split(s, ".")
		group = 4
	default:
		return nil, false
	}
	var hw net.HardwareAddr
	for _, p := range parts {
		if len(p) != group {
			return nil, false
		}
		for i := 0; i < len(p); i += 2 {
			var b byte
			if _, err := fmt.Sscanf(p[i:i+2], "%02x", &b); err != nil {
				return nil, false
			}
			if !isHex(p[i]) || !isHex(p[i+1]) {
				return nil, false
			}
			hw = append(hw, b)
		}
	}
	if n := len(hw); n != 6 && n != 8 && n != 20 {
		return nil, false
	}
	return hw, true
}

func isHex(c byte) bool {
	return c >= '0' && c <= '9' || c >= 'a' && c <= 'f' || c >= 'A' && c <= 'F'
}

// ---- plan -------------------------------------------------------------------

func (s *static) Plan(w *World) {
	t := w.T
	w.Ifaces = defaultIfaces(2)
	for i := 0; i < 6; i++ {
		n := 6
		if t.Draw(8) == 0 {
			n = 8
		}
		s.macs = append(s.macs, drawMAC(t, n, i+1))
	}
	switch t.Draw(7) {
	case 0, 1, 2:
		s.has[0] = true
	case 3, 4, 5:
		s.has[1] = true
	default:
		s.has[0], s.has[1] = true, true
		s.dual = true
	}
	for p := 0; p < 2; p++ {
		if !s.has[p] {
			continue
		}
		s.path[p] = filepath.Join(w.Dir, fmt.Sprintf("leases%d.txt", 4+2*p))
		s.auto[p] = t.Draw(3) != 0
		bad := t.Draw(8) == 0
		text, m := s.genLeaseFile(t, p == 1, bad)
		s.initial[p] = text
		s.initialOK[p] = m != nil
		// cross-check the generator's denotation with the oracle's parser (harness self-check)
		pm := parseLeases(text, p == 1)
		if (pm == nil) != (m == nil) || (m != nil && !sameMap(pm, m)) {
			w.Discard = "harness: lease file generator and oracle parser disagree"
			fmt.Fprintf(os_stderr(), "HARNESS-BUG lease generator/parser disagree on %q: %v vs %v\n", text, pm, m)
		}
		w.Sim.FSRegisterDir(w.Dir)
		w.Sim.FSRegisterPath(s.path[p])
		w.Sim.FSCreate(s.path[p], []byte(text))
		s.final[p] = text
		args := []string{s.path[p]}
		if s.auto[p] {
			args = append(args, "autorefresh")
		}
		conf := []PluginConf{{"file", args}}
		if p == 0 {
			conf = append(conf, PluginConf{"zz_syn4", []string{"after", "modify"}})
			w.Has4 = true
			w.Chain4 = conf
			w.LSpecs = append(w.LSpecs, ListenerSpec{V6: false})
		} else {
			conf = append(conf, PluginConf{"zz_syn6", []string{"after", "modify"}})
			w.Has6 = true
			w.Chain6 = conf
			w.LSpecs = append(w.LSpecs, ListenerSpec{V6: true})
		}
	}
	for i, hw := range s.macs {
		if len(hw) != 6 {
			continue
		}
		s.clients4 = append(s.clients4, &Client4{ID: i, MAC: hw, Link: 2, Bcast: true})
		c6 := &Client6{ID: i, MAC: hw, Link: 2, LL: llFromMAC(hw)}
		switch t.Draw(3) {
		case 0:
			c6.DUID = &dhcpv6.DUIDLLT{HWType: iana.HWTypeEthernet, Time: 5, LinkLayerAddr: hw}
		case 1:
			// the MAC comes from the relay's peer address (EUI-64 link-local)
			c6.DUID = &dhcpv6.DUIDEN{EnterpriseNumber: 5, EnterpriseIdentifier: []byte{byte(i)}}
			l := RelayLayer{Link: net.ParseIP("2001:db8:9::1"), Peer: llFromMAC(hw), Src: net.ParseIP("2001:db8:ffff::7")}
			c6.Relays = []RelayLayer{l}
		default:
			c6.DUID = &dhcpv6.DUIDLL{HWType: iana.HWTypeEthernet, LinkLayerAddr: hw}
		}
		s.clients6 = append(s.clients6, c6)
	}
	w.Sim.SetPoolReuse(int(t.Draw(3)))
	w.FaultsOn = t.Draw(2) == 1
	if t.Draw(4) == 0 {
		// a small kernel event queue (fs.inotify.max_queued_events is a sysctl; 16384 by default) and other files
		// coming and going in the lease file's directory: the queue overflows while the plugin is busy
		s.noisy = true
		w.Sim.InotifyQueueMax = 4 + int(t.Draw(28))
	}
}

func sameMap(a, b map[string]string) bool {
	if len(a) != len(b) {
		return false
	}
	for k, v := range a {
		if b[k] != v {
			return false
		}
	}
	return true
}

func (s *static) OnStarted(w *World, inc int, err string) {
	wantFail := false
	for p := 0; p < 2; p++ {
		if s.has[p] && !s.initialOK[p] {
			wantFail = true
		}
	}
	if wantFail {
		if err == "" {
			w.Violate("C10", "malformed-file-accepted", "start-up succeeded although a lease file has a malformed line:\n%s\n%s", s.initial[0], s.initial[1])
		} else {
			w.Probe("file.malformed_rejected_at_setup")
		}
		return
	}
	if err != "" {
		w.Violate("C10", "wellformed-file-rejected", "start-up failed on well-formed lease files: %s\n--v4--\n%s\n--v6--\n%s", err, s.initial[0], s.initial[1])
		return
	}
	s.scan(w)
	t := w.T
	// requests and operator edits, interleaved
	horizon := int64(20e9)
	nreq := t.Range(2, 16)
	for i := 0; i < nreq; i++ {
		at := int64(t.Draw(uint32(horizon/1e6))) * 1e6
		w.Sim.After(at, func() { s.request(w) })
	}
	s.nEdits = 0
	anyAuto := s.auto[0] && s.has[0] || s.auto[1] && s.has[1]
	if anyAuto {
		s.nEdits = t.Range(1, 6)
		var at int64
		for i := 0; i < s.nEdits; i++ {
			at += int64(1+t.Draw(4000)) * 1e6
			last := i == s.nEdits-1
			w.Sim.After(at, func() { s.edit(w, last) })
		}
		if w.FaultsOn && t.Draw(4) == 0 {
			w.Sim.After(int64(t.Draw(10000))*1e6, func() { w.Sim.ArmReadFileErr(1 + int(t.Draw(2))) })
		}
		if s.noisy {
			for i, k := 0, t.Range(1, 4); i < k; i++ {
				n := t.Range(3, 60)
				w.Sim.After(int64(t.Draw(uint32(at/1e6+1)))*1e6, func() {
					w.Probe("file.directory_noise_burst")
					for j := 0; j < n; j++ {
						s.noiseSeq++
						w.Sim.FSCreateEvent(filepath.Join(w.Dir, fmt.Sprintf("other-%d.tmp", s.noiseSeq)), []byte("x"))
					}
				})
			}
		}
	}
}

func (s *static) request(w *World) {
	t := w.T
	v6 := s.has[1] && (!s.has[0] || t.Draw(2) == 1)
	if v6 {
		if len(s.clients6) == 0 {
			return
		}
		c := s.clients6[t.Pick(len(s.clients6))]
		mt := dhcpv6.MessageTypeSolicit
		if t.Draw(2) == 1 {
			mt = dhcpv6.MessageTypeRequest
		}
		m := w.build6(c, mt)
		withNA := t.Draw(4) != 0
		if withNA {
			na := &dhcpv6.OptIANA{IaId: [4]byte{7, 7, 7, byte(c.ID)}}
			// a renewing or hinting client lists addresses in its IA_NA: what comes back is the file's address, no more
			for k := int(t.Draw(3)); k > 0 && t.Draw(2) == 0; k-- {
				na.Options.Add(&dhcpv6.OptIAAddress{IPv6Addr: s.ipFor(t, true), PreferredLifetime: 1800 * time.Second, ValidLifetime: 3600 * time.Second})
				w.Probe("file.v6_request_lists_addresses")
			}
			m.AddOption(na)
		}
		w.send6(c, m, fmt.Sprintf("%s IA_NA=%v", mt, withNA))
		return
	}
	if len(s.clients4) == 0 {
		return
	}
	c := s.clients4[t.Pick(len(s.clients4))]
	mt := dhcpv4.MessageTypeDiscover
	if t.Draw(2) == 1 {
		mt = dhcpv4.MessageTypeRequest
	}
	w.send4(c, w.build4(c, mt), mt.String())
}

// edit performs one operator update of a lease file, syscall by syscall.
func (s *static) edit(w *World, last bool) {
	t := w.T
	p := 0
	if s.has[1] && s.auto[1] && (!s.has[0] || !s.auto[0] || t.Draw(2) == 1) {
		p = 1
	}
	if !s.has[p] || !s.auto[p] {
		return
	}
	path := s.path[p]
	bad := t.Draw(4) == 0
	text, _ := s.genLeaseFile(t, p == 1, bad)
	if s.noisy && t.Draw(2) == 0 {
		// the update lands while the kernel queue is already overflowing with other files' events: its own events
		// are dropped, only the overflow record tells the plugin that something was missed
		w.Probe("file.update_during_overflow")
		for j, k := 0, w.Sim.InotifyQueueMax+t.Range(1, 12); j < k; j++ {
			s.noiseSeq++
			w.Sim.FSCreateEvent(filepath.Join(w.Dir, fmt.Sprintf("other-%d.tmp", s.noiseSeq)), []byte("x"))
		}
	}
	// faults land inside operations: requests are in flight while the update (and the reload it triggers) happens
	for i, k := 0, int(t.Draw(4)); i < k; i++ {
		w.Sim.After(int64(t.Draw(40))*1e6, func() { s.request(w) })
	}
	for i, k := 0, int(t.Draw(3)); i < k; i++ {
		s.request(w)
	}
	style := t.Draw(7)
	if style == 6 {
		// an update of the same byte length that keeps the modification time (cp -p / rsync -t, then rename):
		// one address changes by a digit
		cur, ok := w.Sim.FSData(path)
		if !ok || len(cur) == 0 {
			style = 0
		} else {
			b := append([]byte(nil), cur...)
			changed := false
			for i := len(b) - 1; i >= 0 && !changed; i-- {
				if b[i] >= '1' && b[i] <= '8' && (i+1 == len(b) || b[i+1] == '\n') {
					b[i]++
					changed = true
				}
			}
			if !changed {
				style = 0
			} else {
				text = string(b)
				s.final[p] = text
				w.hist("operator: replace %s by a same-size file with preserved mtime", filepath.Base(path))
				w.Sim.KeepMtime = true
				w.Sim.FSRenameOver(path, b)
				w.Sim.KeepMtime = false
				s.lastMod[p] = w.Sim.Steps
				s.lastModNow[p] = w.Sim.Now()
				s.readErrAfterMod[p] = false
				s.watchKilled[p] = true
				w.Probe("file.same_size_same_mtime_update")
				return
			}
		}
	}
	if s.watchKilled[p] {
		s.editsAfterKill[p]++
	}
	mark := func() {
		s.lastMod[p] = w.Sim.Steps
		s.lastModNow[p] = w.Sim.Now()
		s.readErrAfterMod[p] = false
	}
	s.final[p] = text
	switch style {
	case 0, 1:
		// rewrite in place: open(O_TRUNC), then 1..4 write(2) calls with time passing in between
		chunks := t.Range(1, 4)
		w.hist("operator: rewrite %s in place in %d chunk(s) (%d bytes, malformed=%v)", filepath.Base(path), chunks, len(text), bad)
		w.Sim.FSTruncate(path)
		mark()
		if chunks > 1 {
			w.Sim.FaultsFired[simrt.FFileTorn]++
		}
		b := []byte(text)
		var at int64
		for i := 0; i < chunks; i++ {
			lo, hi := len(b)*i/chunks, len(b)*(i+1)/chunks
			part := b[lo:hi]
			at += int64(t.Draw(30)) * 1e6
			w.Sim.After(at, func() {
				w.Sim.FSAppend(path, part)
				mark()
			})
		}
	case 2:
		// append a few lines to the existing file
		cur, _ := w.Sim.FSData(path)
		add := text
		if len(cur) > 0 && cur[len(cur)-1] != '\n' {
			add = "\n" + add
		}
		s.final[p] = string(cur) + add
		w.hist("operator: append %d bytes to %s (malformed=%v)", len(add), filepath.Base(path), bad)
		w.Sim.FSAppend(path, []byte(add))
		mark()
	case 3:
		w.hist("operator: replace %s by rename(2) of a new file (malformed=%v)", filepath.Base(path), bad)
		w.Sim.FaultsFired[simrt.FFileRename]++
		w.Sim.FSRenameOver(path, []byte(text))
		mark()
		s.watchKilled[p] = true
	case 4:
		w.hist("operator: unlink %s and create it again (malformed=%v)", filepath.Base(path), bad)
		w.Sim.FaultsFired[simrt.FFileUnlink]++
		w.Sim.FSUnlink(path)
		mark()
		w.Sim.After(int64(t.Draw(20))*1e6, func() {
			w.Sim.FSCreateEvent(path, []byte(text))
			mark()
		})
		s.watchKilled[p] = true
	default:
		w.hist("operator: move %s away and create a new one (malformed=%v)", filepath.Base(path), bad)
		w.Sim.FaultsFired[simrt.FFileRename]++
		w.Sim.FSRenameAway(path, path+".old")
		mark()
		w.Sim.After(int64(t.Draw(20))*1e6, func() {
			w.Sim.FSCreateEvent(path, []byte(text))
			mark()
		})
		s.watchKilled[p] = true
	}
}

// scan folds what the plugin actually read (simrt's ReadFile log) into the reference model.
func (s *static) scan(w *World) {
	log := w.Sim.ReadFileLog
	for ; s.scanned < len(log); s.scanned++ {
		r := log[s.scanned]
		for p := 0; p < 2; p++ {
			if !s.has[p] || r.Path != s.path[p] {
				continue
			}
			if r.Err != "" {
				if r.Step >= s.lastMod[p] {
					s.readErrAfterMod[p] = true
				}
				w.Probe("file.reload_read_error")
				continue
			}
			m := parseLeases(string(r.Data), p == 1)
			if m == nil {
				w.Probe("file.reload_rejected")
				continue
			}
			if len(s.versions[p]) > 0 {
				w.Probe("file.reloaded")
				if string(r.Data) != s.final[p] && string(r.Data) != s.initial[p] {
					w.Probe("file.reload_torn_but_wellformed")
				}
			}
			s.versions[p] = append(s.versions[p], fileVersion{step: r.Step, mapping: m, content: string(r.Data)})
		}
	}
}

// acceptable returns the mappings the plugin may legitimately have served to a lookup made between fromStep and toStep.
func (s *static) acceptable(p int, fromStep, toStep int64) []fileVersion {
	vs := s.versions[p]
	var out []fileVersion
	first := -1
	for i, v := range vs {
		if v.step > toStep {
			break
		}
		end := int64(1) << 62
		if i+1 < len(vs) {
			end = vs[i+1].step
		}
		if end >= fromStep {
			if first < 0 {
				first = i
			}
			out = append(out, v)
		}
	}
	if first > 0 {
		out = append(out, vs[first-1]) // the swap follows the read; the previous table may still have been in force
	}
	return out
}

func (s *static) OnInvoke(w *World, dg *DG, inv *Invocation) {
	if inv.Plugin != "file" || dg == nil {
		return
	}
	s.scan(w)
	p := 0
	if inv.V6 {
		p = 1
	}
	from := dg.DeliveredStep
	acc := s.acceptable(p, from, inv.Step)
	if len(acc) == 0 {
		w.Violate("C10", "harness-no-version", "dg%d: no table version is known for the lookup window [%d,%d]", dg.ID, from, inv.Step)
		return
	}
	if !inv.V6 {
		if dg.Req4 == nil {
			return
		}
		mac := dg.Req4.ClientHWAddr.String()
		got := "-"
		if inv.Stop && !inv.RespNil {
			got = net.IP(inv.Yiaddr).String()
		}
		for _, v := range acc {
			want, listed := v.mapping[mac]
			if listed && inv.Stop && got == want || !listed && !inv.Stop {
				if listed {
					w.Probe("file.v4_listed_served")
				} else {
					w.Probe("file.v4_unlisted_passed")
				}
				return
			}
		}
		w.Violate("C10", s.dualTag()+"v4-wrong-mapping", "dg%d (%s): the file plugin answered %q with %s (stop=%v); the tables in force during the lookup say %s", dg.ID, dg.Kind, mac, got, inv.Stop, s.describe(acc, mac))
		return
	}
	// DHCPv6
	if dg.Req6 == nil {
		return
	}
	inner, err := dg.Req6.GetInnerMessage()
	if err != nil {
		return
	}
	hw, err := dhcpv6.ExtractMAC(dg.Req6)
	if err != nil {
		return
	}
	mac := hw.String()
	reqNA := inner.Options.OneIANA()
	got := "-"
	if len(inv.NA) > 0 {
		var l []string
		for _, na := range inv.NA {
			for _, a := range na.Addrs {
				l = append(l, fmt.Sprintf("%x=%s", na.IAID, a))
			}
		}
		got = strings.Join(l, ",")
	}
	for _, v := range acc {
		want, listed := v.mapping[mac]
		switch {
		case listed && reqNA != nil:
			if got == fmt.Sprintf("%x=%s", reqNA.IaId, want) {
				w.Probe("file.v6_listed_served")
				return
			}
		default:
			if got == "-" {
				w.Probe("file.v6_nothing_added")
				return
			}
		}
	}
	w.Violate("C10", s.dualTag()+"v6-wrong-mapping", "dg%d (%s): the file plugin gave %q IA_NA [%s] (IA_NA requested=%v); the tables in force during the lookup say %s", dg.ID, dg.Kind, mac, got, reqNA != nil, s.describe(acc, mac))
}

func (s *static) dualTag() string {
	if s.dual {
		return "dual-stack/"
	}
	return ""
}

func (s *static) describe(acc []fileVersion, mac string) string {
	var l []string
	for _, v := range acc {
		if ip, ok := v.mapping[mac]; ok {
			l = append(l, ip)
		} else {
			l = append(l, "(not listed)")
		}
	}
	sort.Strings(l)
	return strings.Join(l, " | ")
}

func (s *static) OnReply(w *World, dg *DG, r *Reply) {
	// the chain must end at a v4 hit: the plugin placed after `file` must not have run
	if dg.V6 || r.Msg4 == nil {
		return
	}
	var finv *Invocation
	for _, inv := range dg.Invs {
		if inv.Plugin == "file" {
			finv = inv
		}
	}
	if finv == nil {
		return
	}
	tr := trail4(r.Msg4)
	if finv.Stop && tr != "" {
		w.Violate("C10", "chain-not-ended", "dg%d: the file plugin found the client but a later plugin still ran (trail %q)", dg.ID, tr)
	}
	if !finv.Stop && tr == "" {
		w.Violate("C10", "chain-ended", "dg%d: the client is not listed but the chain ended at the file plugin", dg.ID)
	}
	if finv.Stop && !r.Msg4.YourIPAddr.Equal(net.IP(finv.Yiaddr)) {
		w.Violate("C10", "wire-differs", "dg%d: the plugin assigned %s, the reply carries %s", dg.ID, net.IP(finv.Yiaddr), r.Msg4.YourIPAddr)
	}
}

func (s *static) Finish(w *World) {
	s.scan(w)
	if s.longLines > 0 {
		w.Probe("file.very_long_comment_line")
	}
	for p := 0; p < 2; p++ {
		if !s.has[p] || !s.auto[p] || len(s.versions[p]) == 0 || s.lastMod[p] == 0 {
			continue
		}
		// eventually: a reload happened after the last modification
		log := w.Sim.ReadFileLog
		var lastRead *simrt.ReadFileRec
		for i := range log {
			if log[i].Path == s.path[p] {
				lastRead = &log[i]
			}
		}
		cur, exists := w.Sim.FSData(s.path[p])
		if !exists {
			continue
		}
		if lastRead != nil && lastRead.Step >= s.lastMod[p] && lastRead.Err == "" && string(lastRead.Data) == string(cur) {
			w.Probe("file.final_content_loaded")
			continue
		}
		if s.readErrAfterMod[p] {
			w.Probe("file.final_reload_lost_to_injected_read_error")
			continue
		}
		class := "update-never-loaded"
		for _, ws := range w.Sim.WatcherStats() {
			if ws.Inc == w.Inc && !ws.Dead && ws.Stuck {
				class = "update-never-loaded/watcher-stuck-on-unread-error"
			}
		}
		if class == "update-never-loaded" && s.watchKilled[p] && s.editsAfterKill[p] > 0 {
			class = "update-never-loaded/after-watch-lost"
		}
		w.Violate("C10", class, "autorefresh: %s was last modified at step %d (t=%.3fs) and the server is idle, but the plugin never read the final content (last read at step %d); watch lost by an earlier rename/unlink style update: %v, updates after that: %d; watchers: %+v",
			filepath.Base(s.path[p]), s.lastMod[p], float64(s.lastModNow[p])/1e9, stepOf(lastRead), s.watchKilled[p], s.editsAfterKill[p], w.Sim.WatcherStats())
	}
	if len(w.Findings) > 0 {
		return
	}
	// after the last update: every client is served from the final table
	for i := range s.clients4 {
		if s.has[0] {
			c := s.clients4[i]
			w.send4(c, w.build4(c, dhcpv4.MessageTypeDiscover), "DISCOVER(final)")
		}
		if s.has[1] && i < len(s.clients6) {
			c := s.clients6[i]
			m := w.build6(c, dhcpv6.MessageTypeSolicit)
			m.AddOption(&dhcpv6.OptIANA{IaId: [4]byte{8, 8, 8, byte(c.ID)}})
			w.send6(c, m, "SOLICIT(final) IA_NA=true")
		}
	}
	w.afterRun(w.Sim.Run())
}

func stepOf(r *simrt.ReadFileRec) int64 {
	if r == nil {
		return -1
	}
	return r.Step
}
