package netsim

import (
	"fmt"
	"net"
	"path/filepath"

	"github.com/insomniacslk/dhcp/dhcpv4"
	"github.com/insomniacslk/dhcp/dhcpv6"
	"github.com/insomniacslk/dhcp/iana"
)

// mixed: full DHCPv4 and DHCPv6 chains in one server (server_id, file with autorefresh, range/prefix and
// the option plugins), bursts of concurrent datagrams of both protocols and lease-file refreshes in flight.
// Used by C16 (race detector + wire attribution under buffer recycling) and C01.
type mixed struct {
	baseScenario
	c4   []*Client4
	c6   []*Client6
	sid6 dhcpv6.DUID
	f4   string
	f6   string
}

func init() { registerScenario("mixed", func() scenario { return &mixed{} }) }

func (s *mixed) Name() string { return "mixed" }

func (s *mixed) Plan(w *World) {
	t := w.T
	w.Ifaces = defaultIfaces(2)
	w.Has4, w.Has6 = true, true
	s.f4 = filepath.Join(w.Dir, "static4.txt")
	s.f6 = filepath.Join(w.Dir, "static6.txt")
	mac := net.HardwareAddr{0, 0x11, 0x22, 0x33, 0x44, 0x55}
	s.sid6 = &dhcpv6.DUIDLL{HWType: iana.HWTypeEthernet, LinkLayerAddr: mac}
	for i := 0; i < 8; i++ {
		hw := drawMAC(t, 6, i+1)
		s.c4 = append(s.c4, &Client4{ID: i, MAC: hw, Link: 2 + i%2, Bcast: t.Draw(2) == 1})
		c := &Client6{ID: i, MAC: hw, Link: 2 + i%2, LL: llFromMAC(hw), DUID: &dhcpv6.DUIDLL{HWType: iana.HWTypeEthernet, LinkLayerAddr: hw}}
		if t.Draw(3) == 0 {
			c.Relays = drawRelays(t, t.Range(1, 2), c)
		}
		s.c6 = append(s.c6, c)
	}
	w.Sim.FSRegisterDir(w.Dir)
	w.Sim.FSRegisterPath(s.f4)
	w.Sim.FSRegisterPath(s.f6)
	w.Sim.FSCreate(s.f4, []byte(s.leases(w, false)))
	w.Sim.FSCreate(s.f6, []byte(s.leases(w, true)))
	w.Chain4 = []PluginConf{{"server_id", []string{"10.0.0.1"}}, {"file", []string{s.f4, "autorefresh"}},
		{"range", []string{filepath.Join(w.Dir, "mixed.sqlite3"), "10.0.2.1", fmt.Sprintf("10.0.2.%d", 2+t.Draw(20)), "60s"}},
		{"dns", []string{"10.0.0.2", "10.0.0.3"}}, {"router", []string{"10.0.0.1"}}, {"netmask", []string{"255.255.0.0"}}, {"lease_time", []string{"120s"}},
		{"mtu", []string{"1400"}}, {"searchdomains", []string{"a.example", "b.example"}}, {"staticroute", []string{"10.9.0.0/16,10.0.0.1"}}}
	w.Chain6 = []PluginConf{{"server_id", []string{"LL", mac.String()}}, {"file", []string{s.f6, "autorefresh"}},
		{"prefix", []string{"2001:db8:100::/56", "60"}}, {"dns", []string{"2001:db8::53"}}, {"searchdomains", []string{"a.example"}}}
	if t.Draw(2) == 1 {
		w.Chain4 = append(w.Chain4, PluginConf{"nbp", []string{"tftp://10.0.0.9/boot.img"}})
		w.Chain6 = append(w.Chain6, PluginConf{"nbp", []string{"http://[2001:db8::9]/boot.efi"}})
	}
	w.LSpecs = []ListenerSpec{{V6: false, IfIndex: 0}, {V6: true, IfIndex: 2}, {V6: true, IfIndex: 3}}
	if t.Draw(2) == 1 {
		w.LSpecs = []ListenerSpec{{V6: false, IfIndex: 2}, {V6: false, IfIndex: 3}, {V6: true, IfIndex: 0}}
	}
	w.FaultsOn = true
	w.DupPct = int(t.Draw(30))
	w.DelayMaxNs = 1e9
	w.Sim.SetPoolReuse(1 + int(t.Draw(2)))
	w.Sim.SetPoolStale(t.Draw(2) == 1)
	n := t.Range(4, 40)
	var at int64
	for i := 0; i < n; i++ {
		if t.Draw(3) == 0 {
			at += int64(t.Draw(500)) * 1e6
		} else {
			at += int64(t.Draw(30)) * 1000
		}
		w.Sim.After(at, func() { s.one(w) })
	}
	for i, k := 0, t.Range(0, 4); i < k; i++ {
		w.Sim.After(int64(t.Draw(uint32(at/1e3+1)))*1e3, func() { s.refresh(w) })
	}
}

func (s *mixed) leases(w *World, v6 bool) string {
	t := w.T
	out := "# static leases\n"
	for i := 0; i < 4; i++ {
		c := s.c4[t.Pick(len(s.c4))]
		if v6 {
			out += fmt.Sprintf("%s 2001:db8:5::%x\n", c.MAC, 1+t.Draw(200))
		} else {
			out += fmt.Sprintf("%s 10.7.0.%d\n", c.MAC, 1+t.Draw(200))
		}
	}
	return out
}

func (s *mixed) refresh(w *World) {
	t := w.T
	v6 := t.Draw(2) == 1
	path, text := s.f4, s.leases(w, v6)
	if v6 {
		path = s.f6
	}
	w.hist("operator: rewrite %s in place", filepath.Base(path))
	for i, k := 0, int(t.Draw(4)); i < k; i++ {
		s.one(w) // requests in flight while the file changes
	}
	w.Sim.FSTruncate(path)
	b := []byte(text)
	k := t.Range(1, 3)
	var at int64
	for i := 0; i < k; i++ {
		part := b[len(b)*i/k : len(b)*(i+1)/k]
		at += int64(t.Draw(50)) * 1000
		w.Sim.After(at, func() { w.Sim.FSAppend(path, part) })
	}
}

func (s *mixed) one(w *World) {
	t := w.T
	i := t.Pick(len(s.c4))
	if t.Draw(2) == 0 {
		c := s.c4[i]
		mt := dhcpv4.MessageTypeDiscover
		if t.Draw(2) == 1 {
			mt = dhcpv4.MessageTypeRequest
		}
		m := w.build4(c, mt)
		if t.Draw(2) == 1 {
			m.UpdateOption(dhcpv4.OptParameterRequestList(dhcpv4.OptionDomainNameServer, dhcpv4.OptionInterfaceMTU, dhcpv4.OptionBootfileName, dhcpv4.OptionTFTPServerName))
		}
		w.send4(c, m, mt.String())
		return
	}
	c := s.c6[i]
	types := []dhcpv6.MessageType{dhcpv6.MessageTypeSolicit, dhcpv6.MessageTypeRequest, dhcpv6.MessageTypeRenew, dhcpv6.MessageTypeRebind, dhcpv6.MessageTypeInformationRequest}
	mt := types[t.Pick(len(types))]
	m := w.build6(c, mt)
	if mt == dhcpv6.MessageTypeRequest || mt == dhcpv6.MessageTypeRenew {
		m.AddOption(dhcpv6.OptServerID(s.sid6))
	}
	if t.Draw(2) == 1 {
		m.AddOption(&dhcpv6.OptIANA{IaId: [4]byte{1, 1, 1, byte(i)}})
	}
	if t.Draw(2) == 1 {
		m.AddOption(&dhcpv6.OptIAPD{IaId: [4]byte{2, 2, 2, byte(i)}})
	}
	if t.Draw(2) == 1 {
		m.AddOption(dhcpv6.OptRequestedOption(dhcpv6.OptionDNSRecursiveNameServer, dhcpv6.OptionBootfileURL, dhcpv6.OptionDomainSearchList))
	}
	w.send6(c, m, mt.String())
}

func (s *mixed) OnReply(w *World, dg *DG, r *Reply) {
	if dg.V6 {
		checkC12(w, dg, r)
	} else {
		checkC11(w, dg, r)
		checkC15(w, dg, r)
	}
}
