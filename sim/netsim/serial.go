package netsim

import (
	"fmt"
	"sort"
	"strings"
	"time"

	"github.com/anishathalye/porcupine"
)

// Serial-equivalence monitors for C16: the recorded datagram history (invoke = delivery to the listener,
// return = reply captured or handler ended, both stamped with the simulator's global event sequence) is
// checked with porcupine against a small sequential model of the lease plugin: the set of results must be
// that of some one-at-a-time order of the same datagrams.

type leaseOp struct {
	mac  string
	gave bool
	ip   string
}

type leaseState struct {
	bind string // "mac=ip;" sorted
	n    int
}

func (s *lease4) serialCheck(w *World) {
	if w.O.Prop != "C16" {
		return // the serializability oracle belongs to C16; C02/C03 have their own oracles
	}
	if w.Inc != 1 || s.sqlFaults {
		return // restarts and injected store failures are judged by C02/C03's oracles, not by this model
	}
	var ops []porcupine.Operation
	for _, dg := range w.DGs {
		if !dg.Delivered || !dg.Handled || dg.Req4 == nil {
			continue
		}
		for _, inv := range dg.Invs {
			if inv.Plugin != "range" {
				continue
			}
			op := leaseOp{mac: macKey(dg.Req4.ClientHWAddr), gave: !inv.RespNil}
			if op.gave {
				op.ip = fmt.Sprint(inv.Yiaddr)
			}
			ops = append(ops, porcupine.Operation{ClientId: int(dg.ID), Input: op, Call: dg.Call, Return: dg.Ret})
		}
	}
	if len(ops) < 2 || len(ops) > 40 {
		return
	}
	n := s.n
	model := porcupine.Model{
		Init: func() interface{} { return "" },
		Step: func(st, in, out interface{}) (bool, interface{}) {
			state := st.(string)
			op := in.(leaseOp)
			cur := ""
			cnt := 0
			used := false
			for _, kv := range strings.Split(state, ";") {
				if kv == "" {
					continue
				}
				cnt++
				p := strings.SplitN(kv, "=", 2)
				if p[0] == op.mac {
					cur = p[1]
				}
				if op.gave && p[1] == op.ip && p[0] != op.mac {
					used = true
				}
			}
			if cur != "" {
				return op.gave && op.ip == cur, state
			}
			if !op.gave {
				return cnt >= n, state
			}
			if used || cnt >= n {
				return false, state
			}
			l := strings.Split(state, ";")
			l = append(l, op.mac+"="+op.ip)
			sort.Strings(l)
			return true, strings.Join(l, ";")
		},
	}
	switch porcupine.CheckOperationsTimeout(model, ops, 5*time.Second) {
	case porcupine.Illegal:
		var sb strings.Builder
		for _, o := range ops {
			op := o.Input.(leaseOp)
			fmt.Fprintf(&sb, "\n  dg%d [%d..%d] %q -> gave=%v %s", o.ClientId, o.Call, o.Return, op.mac, op.gave, op.ip)
		}
		w.Violate("C16", "not-serializable/lease4", "the DHCPv4 lease results of %d concurrent datagrams equal those of no one-at-a-time order (range of %d addresses):%s", len(ops), n, sb.String())
	case porcupine.Unknown:
		w.Probe("serial.porcupine_unknown")
	default:
		w.Probe("serial.lease4_history_linearizable")
	}
}

type pdOp struct {
	duid     string
	hintless bool
	got      []string // "block:ip/len"
}

func (s *pd6) serialCheck(w *World) {
	if w.O.Prop != "C16" {
		return // the serializability oracle belongs to C16; C08/C09 have their own per-answer oracles
	}
	var ops []porcupine.Operation
	for _, dg := range w.DGs {
		if !dg.Delivered || !dg.Handled {
			continue
		}
		meta, _ := dg.Meta.(*pdMeta)
		if meta == nil {
			continue
		}
		for _, inv := range dg.Invs {
			if inv.Plugin != "prefix" || inv.RespNil {
				continue
			}
			op := pdOp{duid: fmt.Sprintf("%x", meta.duid)}
			if meta.single && len(meta.iapds) == 1 && meta.iapds[0].empty && len(meta.iapds[0].hints) <= 1 {
				op.hintless = true
			}
			for _, ob := range inv.PD {
				for _, p := range ob.Prefixes {
					if !p.NilPrefix {
						op.got = append(op.got, fmt.Sprintf("%d:%s", s.blockOf(p.IP), pfxKey(p.IP, p.Len)))
					}
				}
			}
			sort.Strings(op.got)
			ops = append(ops, porcupine.Operation{ClientId: int(dg.ID), Input: op, Call: dg.Call, Return: dg.Ret})
		}
	}
	if len(ops) < 2 || len(ops) > 40 {
		return
	}
	n := s.n
	// state: "block:ip/len=duid;" sorted
	model := porcupine.Model{
		Init: func() interface{} { return "" },
		Step: func(st, in, out interface{}) (bool, interface{}) {
			state := st.(string)
			op := in.(pdOp)
			owner := map[string]string{} // block -> duid
			var mine []string
			entries := []string{}
			for _, kv := range strings.Split(state, ";") {
				if kv == "" {
					continue
				}
				entries = append(entries, kv)
				p := strings.SplitN(kv, "=", 2)
				blk := p[0][:strings.Index(p[0], ":")]
				owner[blk] = p[1]
				if p[1] == op.duid {
					mine = append(mine, p[0])
				}
			}
			if op.hintless && len(mine) > 0 {
				sort.Strings(mine)
				return strings.Join(mine, " ") == strings.Join(op.got, " "), state
			}
			if op.hintless && len(op.got) == 0 {
				return len(owner) >= n, state
			}
			for _, g := range op.got {
				blk := g[:strings.Index(g, ":")]
				if o, ok := owner[blk]; ok && o != op.duid {
					return false, state
				}
			}
			seen := map[string]bool{}
			for _, e := range entries {
				seen[e] = true
			}
			for _, g := range op.got {
				e := g + "=" + op.duid
				if !seen[e] {
					seen[e] = true
					entries = append(entries, e)
				}
			}
			sort.Strings(entries)
			return true, strings.Join(entries, ";")
		},
	}
	switch porcupine.CheckOperationsTimeout(model, ops, 5*time.Second) {
	case porcupine.Illegal:
		var sb strings.Builder
		for _, o := range ops {
			op := o.Input.(pdOp)
			fmt.Fprintf(&sb, "\n  dg%d [%d..%d] client %s hintless=%v -> %v", o.ClientId, o.Call, o.Return, op.duid, op.hintless, op.got)
		}
		// hint for the reader: the first operation a return-ordered sequential pass rejects
		sorted := append([]porcupine.Operation(nil), ops...)
		sort.Slice(sorted, func(i, j int) bool { return sorted[i].Return < sorted[j].Return })
		var st interface{} = ""
		first := ""
		for _, o := range sorted {
			ok, nst := model.Step(st, o.Input, nil)
			if !ok {
				first = fmt.Sprintf("dg%d %+v", o.ClientId, o.Input)
				break
			}
			st = nst
		}
		w.Violate("C16", "not-serializable/pd6", "the delegations of %d concurrent DHCPv6 messages equal those of no one-at-a-time order (pool of %d blocks); in return order the first rejected is %s:%s", len(ops), n, first, sb.String())
	case porcupine.Unknown:
		w.Probe("serial.porcupine_unknown")
	default:
		w.Probe("serial.pd6_history_linearizable")
	}
}
