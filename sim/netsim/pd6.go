package netsim

import (
	"bytes"
	"fmt"
	"math/big"
	"net"
	"sort"
	"strings"
	"time"

	"github.com/insomniacslk/dhcp/dhcpv6"
	"github.com/insomniacslk/dhcp/iana"

	"github.com/coredhcp/coredhcp/zzverif/simrt"
)

// pd6: the prefix plugin behind the real DHCPv6 server. Oracles for C08
// (delegated prefixes well-formed and disjoint) and C09 (a client keeps its prefix).
type pd6 struct {
	baseScenario
	pool       net.IPNet
	poolLen    int
	alloc      int
	n          int
	hasSID     bool
	sid        dhcpv6.DUID
	clients    []*Client6
	owner      map[int]string             // block -> DUID key
	held       map[string]map[string]bool // DUID key -> set of "ip/len"
	promise    map[string][]promiseRec    // DUID key + prefix -> promises made (answer time, lower bound of promised end)
	toldAt     map[string]int64           // DUID key + prefix -> time first told
	firstClock map[int64]int64
	audit      bool
	auditOK    int
	auditDone  bool
	wireOnly   int
}

func init() { registerScenario("pd6", func() scenario { return &pd6{} }) }

func (s *pd6) Name() string { return "pd6" }

func duidKey(d dhcpv6.DUID) string { return string(d.ToBytes()) }

func (s *pd6) blockOf(ip net.IP) int {
	if len(ip) != 16 {
		return -1
	}
	a := new(big.Int).SetBytes(ip)
	b := new(big.Int).SetBytes(s.pool.IP.To16())
	if a.Cmp(b) < 0 {
		return -1
	}
	d := new(big.Int).Sub(a, b)
	d.Rsh(d, uint(128-s.alloc))
	if !d.IsInt64() || d.Int64() >= int64(s.n) {
		return -1
	}
	return int(d.Int64())
}

func (s *pd6) blockBase(i int) net.IP {
	b := new(big.Int).SetBytes(s.pool.IP.To16())
	b.Add(b, new(big.Int).Lsh(big.NewInt(int64(i)), uint(128-s.alloc)))
	out := make(net.IP, 16)
	b.FillBytes(out)
	return out
}

func pfxKey(ip net.IP, l int) string { return fmt.Sprintf("%s/%d", ip, l) }

func (s *pd6) Plan(w *World) {
	t := w.T
	s.owner = map[int]string{}
	s.held = map[string]map[string]bool{}
	s.promise = map[string][]promiseRec{}
	s.toldAt = map[string]int64{}
	s.firstClock = map[int64]int64{}
	geo := [][2]int{{56, 60}, {60, 64}, {62, 64}, {64, 68}, {48, 52}, {63, 65}, {61, 67}, {120, 124}, {32, 38}, {58, 59}}
	g := geo[t.Pick(len(geo))]
	s.poolLen, s.alloc = g[0], g[1]
	s.n = 1 << uint(s.alloc-s.poolLen)
	base := net.ParseIP("2001:db8::")
	if t.Draw(2) == 1 {
		base = make(net.IP, 16)
		t.Bytes(base)
		base[0] = 0x20
	}
	m := net.CIDRMask(s.poolLen, 128)
	for i := range base {
		base[i] &= m[i]
	}
	s.pool = net.IPNet{IP: base, Mask: m}
	w.Has6 = true
	if t.Draw(2) == 1 {
		s.hasSID = true
		mac := net.HardwareAddr{0, 0x11, 0x22, 0x33, 0x44, 0x55}
		kind := "LL"
		s.sid = &dhcpv6.DUIDLL{HWType: iana.HWTypeEthernet, LinkLayerAddr: mac}
		if t.Draw(2) == 1 {
			kind = "LLT"
			s.sid = &dhcpv6.DUIDLLT{HWType: iana.HWTypeEthernet, Time: 0, LinkLayerAddr: mac}
		}
		w.Chain6 = append(w.Chain6, PluginConf{"server_id", []string{kind, mac.String()}})
	}
	written := append(net.IP(nil), base...)
	if t.Draw(4) == 0 {
		// the operator writes the pool with bits set below its length (2001:db8:0:f0::/56): it still denotes the masked network
		low := make(net.IP, 16)
		t.Bytes(low)
		for i := range written {
			written[i] |= low[i] &^ m[i]
		}
	}
	w.Chain6 = append(w.Chain6, PluginConf{"prefix", []string{fmt.Sprintf("%s/%d", written, s.poolLen), fmt.Sprint(s.alloc)}})
	if t.Draw(3) == 0 {
		w.Chain6 = append(w.Chain6, PluginConf{"dns", []string{"2001:db8::53"}})
	}
	w.Ifaces = defaultIfaces(2)
	if t.Draw(2) == 0 {
		w.LSpecs = []ListenerSpec{{V6: true, IfIndex: 0}}
	} else {
		w.LSpecs = []ListenerSpec{{V6: true, IfIndex: 2}, {V6: true, IfIndex: 3}}
	}
	nc := t.Range(1, 8)
	for i := 0; i < nc; i++ {
		c := newClient6(t, i, 2+int(t.Draw(2)))
		if t.Draw(3) == 0 {
			c.Relays = drawRelays(t, t.Range(1, 3), c)
		}
		s.clients = append(s.clients, c)
	}
	// long DUIDs that differ only in their tail (vendor serial numbers)
	if nc >= 3 && t.Draw(4) == 0 {
		serial := []byte("vendor-serial-number-000000")
		s.clients[1].DUID = &dhcpv6.DUIDEN{EnterpriseNumber: 4242, EnterpriseIdentifier: append(append([]byte(nil), serial...), 'A')}
		s.clients[2].DUID = &dhcpv6.DUIDEN{EnterpriseNumber: 4242, EnterpriseIdentifier: append(append([]byte(nil), serial...), 'B')}
	}
	// equal-prefix DUIDs: one client's DUID is a proper prefix of another's
	if nc >= 2 && t.Draw(4) == 0 {
		s.clients[0].DUID = &dhcpv6.DUIDOpaque{Type: 77, Data: []byte{1, 2, 3}}
		s.clients[1].DUID = &dhcpv6.DUIDOpaque{Type: 77, Data: []byte{1, 2, 3, 4}}
	}
	// DUIDs that differ only in a hardware type without an IANA name (same link-layer address): different clients
	if nc >= 2 && t.Draw(4) == 0 {
		ll := append(net.HardwareAddr(nil), s.clients[0].MAC...)
		k := nc - 1
		if t.Draw(2) == 0 {
			s.clients[0].DUID = &dhcpv6.DUIDLL{HWType: iana.HWType(0x0101), LinkLayerAddr: ll}
			s.clients[k].DUID = &dhcpv6.DUIDLL{HWType: iana.HWType(0x0102), LinkLayerAddr: append(net.HardwareAddr(nil), ll...)}
		} else {
			s.clients[0].DUID = &dhcpv6.DUIDLLT{HWType: iana.HWType(0x0101), Time: 7, LinkLayerAddr: ll}
			s.clients[k].DUID = &dhcpv6.DUIDLLT{HWType: iana.HWType(0x0102), Time: 7, LinkLayerAddr: append(net.HardwareAddr(nil), ll...)}
		}
		w.Probe("pd.duids_differ_in_hwtype_only")
	}
	w.FaultsOn = t.Draw(2) == 1
	if w.FaultsOn {
		w.DropPct = int(t.Draw(10))
		w.DupPct = int(t.Draw(25))
		w.DelayMaxNs = 2e9
		if t.Draw(2) == 1 {
			w.Sim.Cfg.TimeSkip = 2
			w.Sim.Cfg.MaxTimeSkipNs = 1800e9 // up to 30 minutes pass while handlers are in flight
		}
	}
	w.Sim.SetPoolReuse(int(t.Draw(3)))
	horizon := int64(t.Range(1, 30)) * 1e9
	if t.Draw(4) == 0 {
		horizon = int64(t.Range(1, 100)) * 3600e9 // days: leases expire and are renewed
	}
	n := t.Range(2, 36)
	var burst int64
	for i := 0; i < n; i++ {
		var at int64
		if i > 0 && t.Draw(2) == 1 {
			at = burst + int64(t.Draw(50))*1000
		} else {
			at = int64(t.Draw(uint32(horizon/1e6))) * 1e6
			burst = at
		}
		c := s.clients[t.Pick(len(s.clients))]
		w.Sim.After(at, func() { s.sendOne(w, c) })
	}
	if w.FaultsOn && t.Draw(3) == 0 {
		at := int64(t.Draw(uint32(horizon/1e6))) * 1e6
		w.Sim.After(at, func() { w.Sim.ArmStall(w.Sim.Steps+1+int64(t.Draw(200)), int64(1+t.Draw(600))*1e9, nil) })
	}
}

type promiseRec struct{ at, end int64 }

// pdMeta remembers what a datagram asked for (the oracle's view of the request).
type pdMeta struct {
	duid   string
	iapds  []pdReq
	single bool
}

type pdReq struct {
	iaid  [4]byte
	hints []string // kinds
	exact []string // "ip/len" of hints that name a prefix the client holds (at send time)
	empty bool     // no IAPrefix at all, or only ::/0
}

func (s *pd6) heldList(k string) []string {
	var l []string
	for p := range s.held[k] {
		l = append(l, p)
	}
	sort.Strings(l)
	return l
}

func (s *pd6) sendOne(w *World, c *Client6) {
	t := w.T
	types := []dhcpv6.MessageType{dhcpv6.MessageTypeSolicit, dhcpv6.MessageTypeRequest, dhcpv6.MessageTypeRenew, dhcpv6.MessageTypeRebind, dhcpv6.MessageTypeSolicit, dhcpv6.MessageTypeRequest}
	mt := types[t.Pick(len(types))]
	m := w.build6(c, mt)
	if mt == dhcpv6.MessageTypeSolicit && t.Draw(3) == 0 {
		m.AddOption(&dhcpv6.OptionGeneric{OptionCode: dhcpv6.OptionRapidCommit})
	}
	if s.hasSID && (mt == dhcpv6.MessageTypeRequest || mt == dhcpv6.MessageTypeRenew) {
		m.AddOption(dhcpv6.OptServerID(s.sid))
	}
	k := duidKey(c.DUID)
	meta := &pdMeta{duid: k}
	npd := []int{1, 1, 1, 0, 2, 3}[t.Pick(6)]
	meta.single = npd == 1
	var desc []string
	for i := 0; i < npd; i++ {
		pd := &dhcpv6.OptIAPD{}
		t.Bytes(pd.IaId[:])
		pd.IaId[3] = byte(i) // distinct IAIDs within one message
		pr := pdReq{iaid: pd.IaId, empty: true}
		nh := []int{0, 1, 1, 1, 2, 3}[t.Pick(6)]
		for j := 0; j < nh; j++ {
			h := &dhcpv6.OptIAPrefix{PreferredLifetime: 0, ValidLifetime: 0}
			kind := ""
			held := s.heldList(k)
			hk := t.Draw(10)
			if false && (hk == 2 || hk == 8) {
				hk = 0 // wire-only zero-length hints are a known-finding trigger (C01)
			}
			switch hk {
			case 0:
				kind = "::/0"
				h.Prefix = &net.IPNet{IP: make(net.IP, 16), Mask: net.CIDRMask(0, 128)}
			case 1:
				l := []int{s.alloc, s.alloc + 4, 64, 56, 128}[t.Pick(5)]
				kind = fmt.Sprintf("length-only/%d", l)
				h.Prefix = &net.IPNet{IP: make(net.IP, 16), Mask: net.CIDRMask(l, 128)}
				pr.empty = false
			case 2:
				// wire-only: prefix-length 0 with an address (the codec parses it to "no prefix")
				kind = "len0+addr"
				h.Prefix = &net.IPNet{IP: s.blockBase(t.Pick(s.n)), Mask: net.CIDRMask(0, 128)}
				s.wireOnly++
				pr.empty = false
			case 3, 4:
				if len(held) > 0 {
					p := held[t.Pick(len(held))]
					_, ipn, _ := net.ParseCIDR(p)
					ip := net.ParseIP(p[:strings.Index(p, "/")])
					h.Prefix = &net.IPNet{IP: ip.To16(), Mask: ipn.Mask}
					kind = "held:" + p
					pr.exact = append(pr.exact, p)
					pr.empty = false
					if t.Draw(4) == 0 {
						// the same prefix listed twice in one IA_PD
						pd.Options.Add(&dhcpv6.OptIAPrefix{Prefix: &net.IPNet{IP: append(net.IP(nil), ip.To16()...), Mask: ipn.Mask}})
						pr.hints = append(pr.hints, kind+"(again)")
					}
					break
				}
				fallthrough
			case 5:
				b := t.Pick(s.n)
				l := s.alloc
				if t.Draw(4) == 0 {
					l = s.alloc + int(t.Draw(8)) // longer than the allocation size
					if l > 128 {
						l = 128
					}
				}
				ip := s.blockBase(b)
				if t.Draw(3) == 0 && l < 128 {
					// host bits set beyond the hinted length: still names block b
					low := make(net.IP, 16)
					t.Bytes(low)
					m := net.CIDRMask(l, 128)
					for i := range ip {
						ip[i] |= low[i] &^ m[i]
					}
				}
				if t.Draw(6) == 0 && s.alloc-4 >= s.poolLen {
					l = s.alloc - 4 // a hint shorter than the allocation size, inside the pool
				}
				h.Prefix = &net.IPNet{IP: ip, Mask: net.CIDRMask(l, 128)}
				kind = fmt.Sprintf("in-pool block %d %s/%d", b, ip, l)
				if s.held[k][pfxKey(h.Prefix.IP, l)] {
					pr.exact = append(pr.exact, pfxKey(h.Prefix.IP, l))
				}
				pr.empty = false
			case 6:
				// a prefix some other client holds
				var others []string
				for _, o := range s.clients {
					if ok := duidKey(o.DUID); ok != k {
						others = append(others, s.heldList(ok)...)
					}
				}
				if len(others) > 0 {
					p := others[t.Pick(len(others))]
					_, ipn, _ := net.ParseCIDR(p)
					ip := net.ParseIP(p[:strings.Index(p, "/")])
					h.Prefix = &net.IPNet{IP: ip.To16(), Mask: ipn.Mask}
					kind = "held-by-other:" + p
					pr.empty = false
					break
				}
				fallthrough
			case 9:
				// a block-sized prefix next to the pool: the block right after its end, the one just before its base, and
				// the ones exactly one pool size away on either side (index == number of blocks, or minus that)
				nb := int64(s.n)
				d := []int64{nb, nb, -1, -nb, nb + 1, -2}[t.Pick(6)]
				step := new(big.Int).Lsh(big.NewInt(1), uint(128-s.alloc))
				v := new(big.Int).SetBytes(s.blockBase(0).To16())
				v.Add(v, step.Mul(step, big.NewInt(d)))
				ip := net.ParseIP("2001:db9:ffff::")
				if v.Sign() >= 0 && v.BitLen() <= 128 {
					ip = net.IP(v.FillBytes(make([]byte, 16)))
				}
				h.Prefix = &net.IPNet{IP: ip, Mask: net.CIDRMask(s.alloc, 128)}
				kind = fmt.Sprintf("next-to-pool(%+d blocks from the base) %s/%d", d, ip, s.alloc)
				pr.empty = false
				w.Probe("pd.hint_next_to_pool")
			case 7:
				ip := net.ParseIP("2001:db9:ffff::")
				h.Prefix = &net.IPNet{IP: ip, Mask: net.CIDRMask(s.alloc, 128)}
				kind = "out-of-pool"
				pr.empty = false
			default:
				kind = "nil-prefix-option"
				h.Prefix = nil // marshals as length 0, address ::
			}
			pr.hints = append(pr.hints, kind)
			pd.Options.Add(h)
		}
		if nh == 0 {
			pr.hints = []string{"no-IAPrefix"}
		}
		meta.iapds = append(meta.iapds, pr)
		desc = append(desc, fmt.Sprintf("IA_PD%x{%s}", pd.IaId, strings.Join(pr.hints, ";")))
		m.AddOption(pd)
	}
	w.send6(c, m, mt.String()+" "+strings.Join(desc, " "), meta)
}

func (s *pd6) clock(w *World) {
	for _, cr := range w.Sim.TakeClockReads() {
		if cr.Tag != 0 {
			if _, ok := s.firstClock[cr.Tag]; !ok {
				s.firstClock[cr.Tag] = cr.Now
			}
		}
	}
}

// OnInvoke judges the prefix plugin's own result.
func (s *pd6) OnInvoke(w *World, dg *DG, inv *Invocation) {
	if inv.Plugin != "prefix" || dg == nil || inv.RespNil {
		return
	}
	s.clock(w)
	meta, _ := dg.Meta.(*pdMeta)
	if meta == nil || dg.Req6 == nil {
		return
	}
	k := meta.duid
	now := inv.At
	// C08: one IA_PD per requested IA_PD, same IAID
	cnt := map[[4]byte]int{}
	for _, p := range meta.iapds {
		cnt[p.iaid]++
	}
	got := map[[4]byte]int{}
	for _, ob := range inv.PD {
		got[ob.IAID]++
	}
	for _, p := range meta.iapds {
		if id := p.iaid; got[id] != cnt[id] {
			w.Violate("C08", "iapd-count", "dg%d (%s): the request has %d IA_PD with IAID %x, the answer has %d", dg.ID, dg.Kind, cnt[id], id, got[id])
			break
		}
	}
	for _, ob := range inv.PD {
		if cnt[ob.IAID] == 0 {
			w.Violate("C08", "iapd-unrequested", "dg%d (%s): the answer has an IA_PD with IAID %x that the request does not have", dg.ID, dg.Kind, ob.IAID)
			break
		}
	}
	toldNow := map[string]bool{}
	for _, ob := range inv.PD {
		if len(ob.Prefixes) == 0 {
			if ob.Status != int(iana.StatusNoPrefixAvail) {
				w.Violate("C08", "iapd-empty", "dg%d (%s): IA_PD %x in the answer has neither a prefix nor NoPrefixAvail (status %d)", dg.ID, dg.Kind, ob.IAID, ob.Status)
			} else {
				w.Probe("prefix.no_prefix_avail")
			}
			continue
		}
		for _, p := range ob.Prefixes {
			if p.NilPrefix {
				w.Violate("C08", "nil-prefix", "dg%d (%s): IA_PD %x carries an IAPrefix without a prefix", dg.ID, dg.Kind, ob.IAID)
				continue
			}
			b := s.blockOf(p.IP)
			if b < 0 || !s.pool.Contains(p.IP) {
				w.Violate("C08", "outside-pool", "dg%d (%s): delegated prefix %s/%d is outside the pool %s", dg.ID, dg.Kind, p.IP, p.Len, s.pool.String())
				continue
			}
			if !p.IP.Equal(s.blockBase(b)) {
				w.Violate("C08", "unaligned", "dg%d (%s): delegated prefix %s/%d is not aligned to the allocation size /%d", dg.ID, dg.Kind, p.IP, p.Len, s.alloc)
			}
			if p.Len < s.alloc || p.Len > 128 {
				w.Violate("C08", "too-large", "dg%d (%s): delegated prefix %s/%d is larger than the allocation size /%d", dg.ID, dg.Kind, p.IP, p.Len, s.alloc)
			}
			if !(p.Preferred > 0 && p.Preferred <= p.Valid && p.Valid <= 3600*time.Second) {
				w.Violate("C08", "lifetimes", "dg%d (%s): prefix %s/%d has preferred=%v valid=%v (want 0 < preferred <= valid <= 1h)", dg.ID, dg.Kind, p.IP, p.Len, p.Preferred, p.Valid)
			}
			if o, ok := s.owner[b]; ok && o != k {
				w.Violate("C08", "overlap", "dg%d (%s): block %d (%s/%d) is delegated to client %x and was already delegated to client %x", dg.ID, dg.Kind, b, p.IP, p.Len, k, o)
			}
			s.owner[b] = k
			pk := pfxKey(p.IP, p.Len)
			toldNow[pk] = true
			// C09: lifetime not shorter than what remained
			// only promises the client had been given before this message reached the server ("later message")
			var old int64
			for _, pr := range s.promise[k+"|"+pk] {
				if pr.at < dg.DeliveredAt && pr.end > old {
					old = pr.end
				}
			}
			if old > 0 {
				if now+int64(p.Valid) < old-int64(time.Second) {
					w.Violate("C09", "lifetime-shortened", "dg%d (%s): client was promised %s until t=%.1fs, now gets it only until t=%.1fs (answer at t=%.3fs, valid=%v, delivered %.3fs)", dg.ID, dg.Kind, pk, float64(old)/1e9, float64(now+int64(p.Valid))/1e9, float64(now)/1e9, p.Valid, float64(dg.DeliveredAt)/1e9)
				}
			}
			w.Probe("prefix.delegated")
		}
	}
	// C09 on this answer, judged against what the client held when the datagram was delivered
	heldBefore := map[string]bool{}
	for pk := range s.held[k] {
		if s.toldAt[k+"|"+pk] < dg.DeliveredAt {
			heldBefore[pk] = true
		}
	}
	answered := map[[4]byte]map[string]bool{}
	for _, ob := range inv.PD {
		if answered[ob.IAID] == nil {
			answered[ob.IAID] = map[string]bool{}
		}
		for _, p := range ob.Prefixes {
			if !p.NilPrefix {
				answered[ob.IAID][pfxKey(p.IP, p.Len)] = true
			}
		}
	}
	for _, pr := range meta.iapds {
		if len(pr.exact) > 0 && len(pr.exact) >= len(pr.hints)-strings.Count(strings.Join(pr.hints, " "), "(again)") && !s.otherInFlight(w, dg, k) {
			// every hint of this IA_PD names a prefix the client holds: the answer must not hand out anything else
			for _, ap := range keys(answered[pr.iaid]) {
				if !heldBefore[ap] && !s.held[k][ap] {
					w.Violate("C09", "exact-new-block", "dg%d (%s): every hint of IA_PD %x names a prefix the client holds (%v), yet the answer also delegates %s", dg.ID, dg.Kind, pr.iaid, pr.exact, ap)
					break
				}
			}
		}
		for _, ex := range pr.exact {
			if heldBefore[ex] {
				if !answered[pr.iaid][ex] {
					w.Violate("C09", "exact-not-returned", "dg%d (%s): the client holds %s and asked for exactly it in IA_PD %x, the answer has %v", dg.ID, dg.Kind, ex, pr.iaid, keys(answered[pr.iaid]))
				} else {
					w.Probe("prefix.exact_match")
				}
			}
		}
		if pr.empty && len(pr.hints) <= 1 && meta.single && len(heldBefore) > 0 {
			// a hint-less IA_PD must be answered with what the client holds, not with a different prefix
			a := answered[pr.iaid]
			for _, hp := range keys(heldBefore) {
				if !a[hp] {
					w.Violate("C09", "hintless-not-returned", "dg%d (%s): the client holds %v; its hint-less IA_PD %x was answered with %v", dg.ID, dg.Kind, keys(heldBefore), pr.iaid, keys(a))
					break
				}
			}
			for _, ap := range keys(a) {
				if !heldBefore[ap] && !s.held[k][ap] && !s.otherInFlight(w, dg, k) {
					w.Violate("C09", "hintless-new-block", "dg%d (%s): the client holds %v; its hint-less IA_PD %x consumed a further block %s", dg.ID, dg.Kind, keys(heldBefore), pr.iaid, ap)
					break
				}
			}
			w.Probe("prefix.empty_hint_reuse")
		}
	}
	// update the model
	tr, ok := s.firstClock[dg.ID]
	if !ok {
		tr = dg.DeliveredAt
	}
	for _, ob := range inv.PD {
		for _, p := range ob.Prefixes {
			if p.NilPrefix {
				continue
			}
			pk := pfxKey(p.IP, p.Len)
			if s.held[k] == nil {
				s.held[k] = map[string]bool{}
			}
			if !s.held[k][pk] {
				s.held[k][pk] = true
				s.toldAt[k+"|"+pk] = now
			}
			s.promise[k+"|"+pk] = append(s.promise[k+"|"+pk], promiseRec{at: now, end: tr + int64(p.Valid)})
		}
	}
	if len(toldNow) >= 2 {
		w.Probe("prefix.several_prefixes_in_one_answer")
	}
}

// otherInFlight reports whether another datagram of the same client is being handled right now: its
// handler may already have recorded a new lease that no answer has carried yet.
func (s *pd6) otherInFlight(w *World, dg *DG, k string) bool {
	for _, o := range w.DGs {
		if o == dg || !o.Delivered || o.Handled || o.Killed {
			continue
		}
		if m, ok := o.Meta.(*pdMeta); ok && m.duid == k {
			return true
		}
	}
	return false
}

func keys(m map[string]bool) []string {
	var l []string
	for k := range m {
		l = append(l, k)
	}
	sort.Strings(l)
	return l
}

// OnReply: what goes out on the wire carries the IA_PDs the plugin produced.
func (s *pd6) OnReply(w *World, dg *DG, r *Reply) {
	if r.Msg6 == nil {
		return
	}
	inner, err := r.Msg6.GetInnerMessage()
	if err != nil {
		return
	}
	var pinv *Invocation
	for _, inv := range dg.Invs {
		if inv.Plugin == "prefix" && !inv.RespNil {
			pinv = inv
		}
	}
	if pinv == nil {
		return
	}
	var want, got []string
	for _, ob := range pinv.PD {
		for _, p := range ob.Prefixes {
			if !p.NilPrefix {
				want = append(want, fmt.Sprintf("%x:%s", ob.IAID, pfxKey(p.IP, p.Len)))
			}
		}
	}
	for _, pd := range inner.Options.IAPD() {
		for _, p := range pd.Options.Prefixes() {
			if p.Prefix != nil {
				l, _ := p.Prefix.Mask.Size()
				got = append(got, fmt.Sprintf("%x:%s", pd.IaId, pfxKey(p.Prefix.IP, l)))
				if p.ValidLifetime <= 0 || p.PreferredLifetime <= 0 || p.PreferredLifetime > p.ValidLifetime || p.ValidLifetime > 3600*time.Second {
					w.Violate("C08", "lifetimes-on-wire", "dg%d (%s): on the wire prefix %s has preferred=%v valid=%v", dg.ID, dg.Kind, p.Prefix, p.PreferredLifetime, p.ValidLifetime)
				}
			}
		}
	}
	sort.Strings(want)
	sort.Strings(got)
	if strings.Join(want, " ") != strings.Join(got, " ") {
		w.Violate("C08", "wire-differs", "dg%d (%s): the plugin delegated [%s], the reply on the wire carries [%s]", dg.ID, dg.Kind, strings.Join(want, " "), strings.Join(got, " "))
	}
	w.Probe("prefix.reply_on_wire")
}

// Finish: audit that no block was consumed without being told to somebody.
func (s *pd6) Finish(w *World) {
	s.serialCheck(w)
	if s.n > 64 {
		return
	}
	w.FaultsOn = false
	w.Sim.Disarm()
	w.Sim.Cfg.TimeSkip = 0
	told := len(s.owner)
	want := s.n - told
	okCount := 0
	for i := 0; i < want+2; i++ {
		mac := net.HardwareAddr{0xee, 0, 0, 0, byte(i >> 8), byte(i)}
		c := &Client6{ID: 100 + i, MAC: mac, Link: 2, LL: llFromMAC(mac), DUID: &dhcpv6.DUIDLL{HWType: iana.HWTypeEthernet, LinkLayerAddr: mac}}
		m := w.build6(c, dhcpv6.MessageTypeSolicit)
		pd := &dhcpv6.OptIAPD{IaId: [4]byte{9, 9, byte(i >> 8), byte(i)}}
		m.AddOption(pd)
		dg := w.send6(c, m, "SOLICIT(audit)", &pdMeta{duid: duidKey(c.DUID), iapds: []pdReq{{iaid: pd.IaId, empty: true, hints: []string{"no-IAPrefix"}}}, single: true})
		if dg == nil {
			return
		}
		w.afterRun(w.Sim.Run())
		if len(w.Findings) > 0 {
			return
		}
		var pinv *Invocation
		for _, inv := range dg.Invs {
			if inv.Plugin == "prefix" {
				pinv = inv
			}
		}
		if pinv == nil || len(pinv.PD) != 1 {
			return // the chain did not reach the plugin (not this oracle's business)
		}
		if len(pinv.PD[0].Prefixes) > 0 {
			okCount++
		} else {
			break
		}
	}
	if okCount != want {
		w.Violate("C09", "blocks-consumed-untold", "the pool has %d blocks and %d were ever delegated in an answer, but only %d further hint-less requests from new clients succeed (want %d): blocks were consumed without being given to anybody", s.n, told, okCount, want)
	} else {
		w.Probe("prefix.audit_capacity_exact")
	}
}

var _ = bytes.Equal
var _ = simrt.NumProbes
