package netsim

import (
	"bytes"
	"encoding/binary"
	"fmt"
	"net"
	"net/url"
	"path/filepath"
	"strings"
	"time"

	"github.com/insomniacslk/dhcp/dhcpv4"
	"github.com/insomniacslk/dhcp/dhcpv6"

	"github.com/coredhcp/coredhcp/zzverif/simrt"
)

// options: the option plugins around a lease plugin, with accepted argument vectors, and clients that
// list every subset of the relevant option codes (or send no list at all). Oracle for C17: each option is
// present exactly when the property says so, once, with the configured value in wire encoding (computed
// here by independent encoders, compared byte for byte with the reply on the wire).
type optionsSc struct {
	baseScenario
	v6         bool
	plugins    map[string][]string // configured plugin -> args
	order      []string
	hasRange   bool
	rangeLease string
	rangeN     int
	c4         []*Client4
	c6         []*Client6
	sleep      time.Duration
}

func init() { registerScenario("options", func() scenario { return &optionsSc{} }) }

func (s *optionsSc) Name() string { return "options" }

func (s *optionsSc) Plan(w *World) {
	t := w.T
	s.plugins = map[string][]string{}
	w.Ifaces = defaultIfaces(2)
	s.v6 = t.Draw(4) == 0
	add := func(name string, args ...string) {
		s.plugins[name] = args
		s.order = append(s.order, name)
	}
	addrs4 := func(n int) []string {
		var r []string
		for i := 0; i < n; i++ {
			r = append(r, fmt.Sprintf("10.%d.%d.%d", t.Draw(200), t.Draw(255), 1+t.Draw(250)))
		}
		return r
	}
	domains := func(n int) []string {
		pool := []string{"example.org", "a.b.example", "corp.internal", "x", "sub.a.b.example", "example.org"}
		var r []string
		for i := 0; i < n; i++ {
			r = append(r, pool[t.Pick(len(pool))])
		}
		return r
	}
	if s.v6 {
		w.Has6 = true
		if t.Draw(2) == 1 {
			add("prefix", "2001:db8:40::/56", "60")
		}
		if t.Draw(3) != 0 {
			var a []string
			for i, n := 0, t.Range(1, 4); i < n; i++ {
				a = append(a, fmt.Sprintf("2001:db8::%x", 1+t.Draw(60000)))
			}
			add("dns", a...)
		}
		if t.Draw(2) == 1 {
			add("searchdomains", domains(t.Range(1, 4))...)
		}
		if t.Draw(3) == 0 {
			add("sleep", "20ms")
			s.sleep = 20 * time.Millisecond
		}
		if t.Draw(2) == 1 {
			u := []string{"http://[2001:db8::9]/boot.efi", "tftp://boot.example/pxe?params=console%3DttyS0", "https://boot.example/x?params=a%20b%20c", "http://h/y"}[t.Pick(4)]
			add("nbp", u)
		}
		for _, n := range s.order {
			w.Chain6 = append(w.Chain6, PluginConf{n, s.plugins[n]})
		}
		w.LSpecs = []ListenerSpec{{V6: true, IfIndex: 0}}
	} else {
		w.Has4 = true
		if t.Draw(3) == 0 {
			add("ipv6only", []string{"300s", "0s", "1800s", "4660s"}[t.Pick(4)])
		}
		if t.Draw(4) == 0 {
			add("sleep", "15ms")
			s.sleep = 15 * time.Millisecond
		}
		if t.Draw(4) == 0 {
			add("lease_time", "77s") // before range: range will override nothing, lease_time sets first
		}
		if t.Draw(3) != 0 {
			s.hasRange = true
			s.rangeN = []int{2, 3, 40}[t.Pick(3)]
			// the lease time range puts into the reply (rounded to whole seconds), zero and sub-second ones included:
			// "already set" is about the option being there, not about its value
			s.rangeLease = []string{"600s", "600s", "90s", "1s", "0s", "400ms", "1500ms"}[t.Pick(7)]
			add("range", filepath.Join(w.Dir, "opt.sqlite3"), "10.30.0.1", fmt.Sprintf("10.30.0.%d", s.rangeN), s.rangeLease)
		}
		if _, ok := s.plugins["lease_time"]; !ok && t.Draw(2) == 1 {
			add("lease_time", []string{"60s", "1h", "90s"}[t.Pick(3)])
		}
		if t.Draw(2) == 1 {
			add("dns", addrs4(t.Range(1, 4))...)
		}
		if t.Draw(2) == 1 {
			add("router", addrs4(t.Range(1, 3))...)
		}
		if t.Draw(2) == 1 {
			add("netmask", []string{"255.255.255.0", "255.255.0.0", "255.255.255.252", "255.0.0.0"}[t.Pick(4)])
		}
		if t.Draw(2) == 1 {
			add("mtu", []string{"1500", "1400", "576", "9000", "65535", "68", "01500", "0576"}[t.Pick(8)])
		}
		if t.Draw(2) == 1 {
			add("searchdomains", domains(t.Range(1, 4))...)
		}
		if t.Draw(2) == 1 {
			var r []string
			for i, n := 0, t.Range(1, 3); i < n; i++ {
				r = append(r, []string{"10.9.0.0/16,10.0.0.1", "0.0.0.0/0,10.0.0.254", "192.0.2.128/25,10.0.0.2", "10.1.2.3/32,10.0.0.3", "172.16.0.0/12,10.0.0.4", "10.1.35.7/20,10.0.0.5", "172.20.5.0/12,10.0.0.6", "192.0.2.77/25,10.0.0.7"}[t.Pick(8)])
			}
			add("staticroute", r...)
		}
		if t.Draw(3) == 0 {
			add("autoconfigure", []string{"0", "1", "DoNotAutoConfigure", "AutoConfigure"}[t.Pick(4)])
		}
		if t.Draw(3) == 0 {
			u := []string{"tftp://10.0.0.9/boot.img", "http://boot.example/x.efi", "https://boot.example/y", "ftp://10.0.0.9/z", "tftp://srv.example/dir/file"}[t.Pick(5)]
			add("nbp", u)
		}
		for _, n := range s.order {
			w.Chain4 = append(w.Chain4, PluginConf{n, s.plugins[n]})
		}
		w.LSpecs = []ListenerSpec{{V6: false, IfIndex: 0}}
	}
	for i := 0; i < 5; i++ {
		hw := drawMAC(t, 6, i+1)
		s.c4 = append(s.c4, &Client4{ID: i, MAC: hw, Link: 2, Bcast: true})
		c6 := newClient6(t, i, 2)
		if t.Draw(3) == 0 {
			c6.Relays = drawRelays(t, t.Range(1, 3), c6) // option plugins look at the innermost message, whatever the nesting
		}
		s.c6 = append(s.c6, c6)
	}
	w.Sim.SetPoolReuse(int(t.Draw(3)))
	n := t.Range(3, 24)
	var at int64
	for i := 0; i < n; i++ {
		if t.Draw(2) == 0 {
			at += int64(t.Draw(300)) * 1e6
		}
		w.Sim.After(at, func() { s.one(w) })
	}
}

type optMeta struct {
	hasPRL   bool
	emptyPRL bool // option 55 present with length 0: "asks for nothing" or "no list" - both readings are accepted for dns/mtu/nbp
	prl      map[int]bool
	sent116  bool
	oro      map[int]bool
	v6       bool
}

func (s *optionsSc) one(w *World) {
	t := w.T
	i := t.Pick(5)
	meta := &optMeta{prl: map[int]bool{}, oro: map[int]bool{}, v6: s.v6}
	if s.v6 {
		c := s.c6[i]
		mt := []dhcpv6.MessageType{dhcpv6.MessageTypeSolicit, dhcpv6.MessageTypeRequest, dhcpv6.MessageTypeInformationRequest, dhcpv6.MessageTypeRenew}[t.Pick(4)]
		m := w.build6(c, mt)
		if t.Draw(4) != 0 {
			var codes []dhcpv6.OptionCode
			for _, c := range []dhcpv6.OptionCode{dhcpv6.OptionDNSRecursiveNameServer, dhcpv6.OptionDomainSearchList, dhcpv6.OptionBootfileURL, dhcpv6.OptionBootfileParam, dhcpv6.OptionSNTPServerList} {
				if t.Draw(2) == 1 {
					codes = append(codes, c)
					meta.oro[int(c)] = true
				}
			}
			m.AddOption(dhcpv6.OptRequestedOption(codes...))
		}
		if t.Draw(2) == 1 {
			m.AddOption(&dhcpv6.OptIAPD{IaId: [4]byte{3, 3, 3, byte(i)}})
		}
		w.send6(c, m, fmt.Sprintf("%s oro=%v", mt, keysInt(meta.oro)), meta)
		return
	}
	c := s.c4[i]
	mt := dhcpv4.MessageTypeDiscover
	if t.Draw(2) == 1 {
		mt = dhcpv4.MessageTypeRequest
	}
	m := w.build4(c, mt)
	if mt == dhcpv4.MessageTypeRequest && t.Draw(3) == 0 {
		m.ClientIPAddr = net.IP{10, 30, 0, byte(1 + i)} // renewing: ciaddr set
	}
	_, hasV6only := s.plugins["ipv6only"]
	noList := t.Draw(4) == 0
	_ = hasV6only
	if !noList {
		meta.hasPRL = true
		var l []dhcpv4.OptionCode
		for _, code := range []uint8{1, 3, 6, 26, 51, 66, 67, 108, 119, 121} {
			if t.Draw(2) == 1 {
				l = append(l, dhcpv4.GenericOptionCode(code))
				meta.prl[int(code)] = true
			}
		}
		if t.Draw(8) == 0 {
			l = nil
			meta.prl = map[int]bool{}
		} else if len(l) == 0 {
			l = append(l, dhcpv4.GenericOptionCode(43))
		}
		if len(l) == 0 {
			// a zero-length option 55 (RFC 2132 wants at least one code; clients send it all the same): it lists nothing, so
			// what must be listed explicitly (108) is not; whether it counts as "absent" for dns/mtu/nbp is left open
			meta.emptyPRL = true
			w.Probe("options.v4.zero_length_request_list")
		}
		m.UpdateOption(dhcpv4.OptParameterRequestList(l...))
	}
	if t.Draw(3) == 0 {
		m.UpdateOption(dhcpv4.OptGeneric(dhcpv4.OptionAutoConfigure, []byte{byte(t.Draw(2))}))
		meta.sent116 = true
	}
	li := w.listenerFor(false, c.Link)
	src := src4(c)
	if !m.ClientIPAddr.IsUnspecified() {
		src = net.UDPAddr{IP: m.ClientIPAddr, Port: 68}
	}
	w.Send(li, m.ToBytes(), src, c.Link, fmt.Sprintf("%s %s prl=%v(list=%v) opt116=%v ciaddr=%s", c, mt, keysInt(meta.prl), meta.hasPRL, meta.sent116, m.ClientIPAddr), c.ID, meta)
}

func keysInt(m map[int]bool) []int {
	var l []int
	for k := range m {
		l = append(l, k)
	}
	for i := range l {
		for j := i + 1; j < len(l); j++ {
			if l[j] < l[i] {
				l[i], l[j] = l[j], l[i]
			}
		}
	}
	return l
}

// ---- independent wire encoders ------------------------------------------------

func encIPs4(args []string) []byte {
	var b []byte
	for _, a := range args {
		b = append(b, net.ParseIP(a).To4()...)
	}
	return b
}

func encLabels(domains []string) []byte {
	// RFC 1035 labels without compression
	var b []byte
	for _, d := range domains {
		for _, l := range strings.Split(strings.TrimSuffix(d, "."), ".") {
			b = append(b, byte(len(l)))
			b = append(b, l...)
		}
		b = append(b, 0)
	}
	return b
}

// decLabels decodes RFC 1035 labels with compression pointers (a server may compress option 119).
func decLabels(data []byte) ([]string, bool) {
	var out []string
	pos := 0
	for pos < len(data) {
		var labels []string
		p := pos
		jumped := false
		end := -1
		for hops := 0; ; hops++ {
			if p >= len(data) || hops > 255 {
				return nil, false
			}
			l := int(data[p])
			switch {
			case l == 0:
				if !jumped {
					end = p + 1
				}
				goto done
			case l&0xc0 == 0xc0:
				if p+1 >= len(data) {
					return nil, false
				}
				if !jumped {
					end = p + 2
				}
				p = (l&0x3f)<<8 | int(data[p+1])
				jumped = true
			default:
				if p+1+l > len(data) {
					return nil, false
				}
				labels = append(labels, string(data[p+1:p+1+l]))
				p += 1 + l
			}
		}
	done:
		out = append(out, strings.Join(labels, "."))
		pos = end
	}
	return out, true
}

func encRoutes(args []string) []byte {
	var b []byte
	for _, a := range args {
		f := strings.Split(a, ",")
		_, n, _ := net.ParseCIDR(f[0])
		ones, _ := n.Mask.Size()
		b = append(b, byte(ones))
		b = append(b, n.IP.To4()[:(ones+7)/8]...)
		b = append(b, net.ParseIP(f[1]).To4()...)
	}
	return b
}

func be32(v uint32) []byte { b := make([]byte, 4); binary.BigEndian.PutUint32(b, v); return b }
func be16(v uint16) []byte { b := make([]byte, 2); binary.BigEndian.PutUint16(b, v); return b }

func parseDur(s string) time.Duration { d, _ := time.ParseDuration(s); return d }

// ---- oracle -------------------------------------------------------------------

func (s *optionsSc) OnReply(w *World, dg *DG, r *Reply) {
	meta, _ := dg.Meta.(*optMeta)
	if meta == nil {
		return
	}
	sleepRan := false
	for _, inv := range dg.Invs {
		if inv.Plugin == "sleep" {
			sleepRan = true
		}
	}
	if s.sleep > 0 && sleepRan {
		if r.Cap.Now-dg.DeliveredAt < int64(s.sleep) {
			w.Violate("C17", "sleep-too-short", "dg%d was answered %.3fms after it arrived; the sleep plugin is configured with %v", dg.ID, float64(r.Cap.Now-dg.DeliveredAt)/1e6, s.sleep)
		} else {
			w.Probe("options.sleep_delay_observed")
		}
	}
	if dg.V6 {
		s.check6(w, dg, r, meta)
		return
	}
	if r.Msg4 == nil {
		return
	}
	rep := r.Msg4
	bad := func(class, format string, a ...interface{}) {
		w.Violate("C17", class, "reply to dg%d (%s) under chain %s: %s", dg.ID, dg.Kind, w.describeChains(), fmt.Sprintf(format, a...))
	}
	wants := func(code int) bool { return !meta.hasPRL || meta.prl[code] }
	// which plugins ran for this datagram (the chain may stop early: ipv6only, nbp, an exhausted range)
	ran := map[string]bool{}
	for _, inv := range dg.Invs {
		ran[inv.Plugin] = true
	}
	expect := func(plugin string, code uint8, present bool, value []byte, what string) {
		got, has := rep.Options[code]
		if !ran[plugin] {
			return
		}
		if present && !has {
			bad("missing/"+plugin, "%s (option %d) is missing; configured %v", what, code, s.plugins[plugin])
		} else if !present && has {
			bad("unrequested/"+plugin, "%s (option %d) was sent although the client is not entitled to it", what, code)
		} else if present && !bytes.Equal(got, value) {
			bad("value/"+plugin, "%s (option %d) is % x on the wire, the configured value %v encodes to % x", what, code, got, s.plugins[plugin], value)
		} else if present {
			w.Probe("options.v4." + plugin + ".value_ok")
		} else {
			w.Probe("options.v4." + plugin + ".withheld")
		}
	}
	if a, ok := s.plugins["netmask"]; ok {
		expect("netmask", 1, true, net.ParseIP(a[0]).To4(), "subnet mask")
	}
	if a, ok := s.plugins["router"]; ok {
		expect("router", 3, true, encIPs4(a), "routers")
	}
	if a, ok := s.plugins["dns"]; ok {
		if !meta.emptyPRL {
			expect("dns", 6, wants(6), encIPs4(a), "DNS servers")
		}
	}
	if a, ok := s.plugins["mtu"]; ok {
		var v int
		fmt.Sscanf(a[0], "%d", &v)
		if !meta.emptyPRL {
			expect("mtu", 26, wants(26), be16(uint16(v)), "interface MTU")
		}
	}
	if a, ok := s.plugins["staticroute"]; ok {
		expect("staticroute", 121, true, encRoutes(a), "classless static routes")
	}
	if a, ok := s.plugins["searchdomains"]; ok && ran["searchdomains"] {
		got, has := rep.Options[119]
		if !has {
			bad("missing/searchdomains", "domain search list (option 119) is missing; configured %v", a)
		} else if dec, ok := decLabels(got); !ok || strings.Join(dec, " ") != strings.Join(a, " ") {
			bad("value/searchdomains", "domain search list (option 119) % x decodes to %v, configured %v", got, dec, a)
		} else {
			w.Probe("options.v4.searchdomains.value_ok")
		}
	}
	if a, ok := s.plugins["nbp"]; ok && ran["nbp"] {
		u, _ := url.Parse(a[0])
		var want66, want67 []byte
		switch u.Scheme {
		case "http", "https", "ftp":
			want67 = []byte(u.String())
		default:
			want66 = []byte(u.Host)
			want67 = []byte(u.Path)
		}
		if want66 != nil {
			if !meta.emptyPRL {
				expect("nbp", 66, wants(66), want66, "TFTP server name")
			}
		} else if _, has := rep.Options[66]; has {
			bad("unrequested/nbp", "TFTP server name (option 66) was sent but the boot URL %s has no TFTP server", a[0])
		}
		if !meta.emptyPRL {
			expect("nbp", 67, wants(67), want67, "boot file name")
		}
	}
	// lease time: from range when range assigned an address, else from lease_time; lease_time never overrides
	if a, ok := s.plugins["lease_time"]; ok && ran["lease_time"] {
		lt := rep.Options[51]
		// the range plugin sets its own lease time whenever it assigns an address, whatever ran before it
		rangeRan := ran["range"]
		want := be32(uint32(parseDur(a[0]) / time.Second))
		if rangeRan {
			want = be32(uint32(parseDur(s.rangeLease).Round(time.Second) / time.Second))
		}
		if !bytes.Equal(lt, want) {
			bad("value/lease_time", "lease time (option 51) is % x, expected % x (lease_time %v, range assigned an address: %v)", lt, want, a, rangeRan)
		} else {
			w.Probe("options.v4.lease_time.value_ok")
		}
	}
	// ipv6only: option 108 and no address, only for clients that list 108
	if a, ok := s.plugins["ipv6only"]; ok {
		_, has := rep.Options[108]
		listed := meta.hasPRL && meta.prl[108]
		switch {
		case listed:
			if !has || !bytes.Equal(rep.Options[108], be32(uint32(parseDur(a[0])/time.Second))) {
				bad("value/ipv6only", "IPv6-only preferred (option 108) is % x (present=%v), configured %v", rep.Options[108], has, a)
			}
			if ran["range"] || !rep.YourIPAddr.IsUnspecified() {
				bad("ipv6only-address-assigned", "the client listed option 108 but processing went on to assign an address (yiaddr %s)", rep.YourIPAddr)
			} else {
				w.Probe("options.v4.ipv6only.stopped_before_lease")
			}
		default:
			if has {
				class := "unrequested/ipv6only"
				if !meta.hasPRL {
					class = "unrequested/ipv6only/no-parameter-list"
				}
				bad(class, "IPv6-only preferred (option 108) was sent to a client that did not list it (parameter list present=%v)", meta.hasPRL)
			} else {
				w.Probe("options.v4.ipv6only.withheld")
			}
		}
	}
	// autoconfigure: an address-less OFFER is answered only for clients that sent option 116
	if a, ok := s.plugins["autoconfigure"]; ok && ran["autoconfigure"] {
		addrless := rep.MessageType() == dhcpv4.MessageTypeOffer && rep.YourIPAddr.IsUnspecified()
		_, has := rep.Options[116]
		if addrless {
			if !meta.sent116 {
				bad("autoconfigure-not-dropped", "an address-less OFFER was sent to a client that did not send the auto-configure option")
			} else {
				want := map[string]byte{"0": 0, "1": 1, "DoNotAutoConfigure": 0, "AutoConfigure": 1}[a[0]]
				if !has || !bytes.Equal(rep.Options[116], []byte{want}) {
					bad("value/autoconfigure", "auto-configure (option 116) is % x (present=%v), configured %v", rep.Options[116], has, a)
				} else {
					w.Probe("options.v4.autoconfigure.value_ok")
				}
			}
		} else if has {
			bad("unrequested/autoconfigure", "auto-configure (option 116) was added to a reply that assigns an address")
		}
	}
}

func (s *optionsSc) OnHandled(w *World, dg *DG) {
	meta, _ := dg.Meta.(*optMeta)
	if meta == nil || len(dg.Replies) > 0 || dg.V6 {
		return
	}
	// no reply: legitimate when the range is exhausted, or autoconfigure dropped an address-less OFFER of a client without option 116
	for _, inv := range dg.Invs {
		if inv.Plugin == "autoconfigure" && inv.RespNil {
			if meta.sent116 {
				w.Violate("C17", "autoconfigure-dropped-entitled", "dg%d (%s): the client sent the auto-configure option but its address-less OFFER was dropped", dg.ID, dg.Kind)
			} else {
				w.Probe("options.v4.autoconfigure.dropped")
			}
		}
	}
}

func (s *optionsSc) check6(w *World, dg *DG, r *Reply, meta *optMeta) {
	if r.Msg6 == nil {
		return
	}
	rep, err := r.Msg6.GetInnerMessage()
	if err != nil {
		return
	}
	bad := func(class, format string, a ...interface{}) {
		w.Violate("C17", class, "reply to dg%d (%s) under chain %s: %s", dg.ID, dg.Kind, w.describeChains(), fmt.Sprintf(format, a...))
	}
	ran := map[string]bool{}
	for _, inv := range dg.Invs {
		ran[inv.Plugin] = true
	}
	one := func(plugin string, code dhcpv6.OptionCode, present bool, value []byte, what string) {
		if !ran[plugin] {
			return
		}
		opts := rep.GetOption(code)
		switch {
		case present && len(opts) != 1:
			bad("missing/"+plugin+"6", "%s (option %d) appears %d times, want once; configured %v", what, code, len(opts), s.plugins[plugin])
		case !present && len(opts) != 0:
			bad("unrequested/"+plugin+"6", "%s (option %d) was sent although the client did not request it", what, code)
		case present && !bytes.Equal(opts[0].ToBytes(), value):
			bad("value/"+plugin+"6", "%s (option %d) is % x on the wire, the configured value %v encodes to % x", what, code, opts[0].ToBytes(), s.plugins[plugin], value)
		case present:
			w.Probe("options.v6." + plugin + ".value_ok")
		default:
			w.Probe("options.v6." + plugin + ".withheld")
		}
	}
	if a, ok := s.plugins["dns"]; ok {
		var v []byte
		for _, x := range a {
			v = append(v, net.ParseIP(x).To16()...)
		}
		one("dns", dhcpv6.OptionDNSRecursiveNameServer, meta.oro[int(dhcpv6.OptionDNSRecursiveNameServer)], v, "DNS servers")
	}
	if a, ok := s.plugins["searchdomains"]; ok {
		one("searchdomains", dhcpv6.OptionDomainSearchList, true, encLabels(a), "domain search list")
	}
	if a, ok := s.plugins["nbp"]; ok {
		u, _ := url.Parse(a[0])
		one("nbp", dhcpv6.OptionBootfileURL, meta.oro[int(dhcpv6.OptionBootfileURL)], []byte(u.String()), "boot file URL")
		params := u.Query().Get("params")
		var v []byte
		if params != "" {
			v = append(be16(uint16(len(params))), params...)
		}
		one("nbp", dhcpv6.OptionBootfileParam, params != "" && meta.oro[int(dhcpv6.OptionBootfileParam)], v, "boot file parameters")
	}
}

var _ = simrt.NumProbes
