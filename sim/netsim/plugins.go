package netsim

import (
	"bytes"
	"errors"
	"fmt"
	"net"
	"reflect"
	"sort"
	"strings"
	"time"

	"github.com/insomniacslk/dhcp/dhcpv4"
	"github.com/insomniacslk/dhcp/dhcpv6"

	"github.com/coredhcp/coredhcp/handler"
	"github.com/coredhcp/coredhcp/plugins"
	pl_autoconfigure "github.com/coredhcp/coredhcp/plugins/autoconfigure"
	pl_dns "github.com/coredhcp/coredhcp/plugins/dns"
	pl_file "github.com/coredhcp/coredhcp/plugins/file"
	pl_ipv6only "github.com/coredhcp/coredhcp/plugins/ipv6only"
	pl_leasetime "github.com/coredhcp/coredhcp/plugins/leasetime"
	pl_mtu "github.com/coredhcp/coredhcp/plugins/mtu"
	pl_nbp "github.com/coredhcp/coredhcp/plugins/nbp"
	pl_netmask "github.com/coredhcp/coredhcp/plugins/netmask"
	pl_prefix "github.com/coredhcp/coredhcp/plugins/prefix"
	pl_range "github.com/coredhcp/coredhcp/plugins/range"
	pl_router "github.com/coredhcp/coredhcp/plugins/router"
	pl_searchdomains "github.com/coredhcp/coredhcp/plugins/searchdomains"
	pl_serverid "github.com/coredhcp/coredhcp/plugins/serverid"
	pl_sleep "github.com/coredhcp/coredhcp/plugins/sleep"
	pl_staticroute "github.com/coredhcp/coredhcp/plugins/staticroute"
	"github.com/coredhcp/coredhcp/zzverif/simrt"
)

// the same list as cmds/coredhcp/main.go
var builtin = []*plugins.Plugin{
	&pl_autoconfigure.Plugin, &pl_dns.Plugin, &pl_file.Plugin, &pl_ipv6only.Plugin, &pl_leasetime.Plugin, &pl_mtu.Plugin, &pl_nbp.Plugin,
	&pl_netmask.Plugin, &pl_prefix.Plugin, &pl_range.Plugin, &pl_router.Plugin, &pl_searchdomains.Plugin, &pl_serverid.Plugin, &pl_sleep.Plugin, &pl_staticroute.Plugin,
}

// Invocation is logged by the observer wrapped around every handler (built-in and synthetic).
type Invocation struct {
	Plugin   string
	Index    int // position in the configured chain of its protocol (-1 unknown)
	V6       bool
	ReqPtr   uintptr
	InPtr    uintptr
	OutPtr   uintptr
	RespNil  bool
	Stop     bool
	Builtin  bool
	Trail    string
	Yiaddr   []byte // v4: yiaddr of the returned response
	Lease    int64  // v4: option 51 of the returned response in ns (-1 absent)
	MsgType  int
	DG       int64
	At       int64 // simulated time when the handler returned
	Step     int64
	Args     string
	PD       []PDObs // v6: IA_PD options of the returned response
	NA       []NAObs // v6: IA_NA options of the returned response
	RespType int
	Opts     []int  // option codes of the returned response (top level)
	RT       string // non-empty: the returned response does not survive serialise + parse (C19)
	ReqSum   uint64 // digest of the request object the handler received (serialised)
	OutSum   uint64 // digest of the response the handler returned (serialised; 0 if nil or not serialisable)
}

var registered bool

func registerPlugins() {
	if registered {
		return
	}
	registered = true
	for _, p := range builtin {
		if err := plugins.RegisterPlugin(observe(p, true)); err != nil {
			panic(err)
		}
	}
	for _, p := range syntheticPlugins() {
		if err := plugins.RegisterPlugin(p); err != nil {
			panic(err)
		}
	}
}

func ptrOf(x interface{}) uintptr {
	if x == nil {
		return 0
	}
	v := reflect.ValueOf(x)
	if v.Kind() == reflect.Ptr {
		return v.Pointer()
	}
	return 0
}

// observe wraps a plugin so that every handler invocation is logged; behaviour is unchanged.
func observe(p *plugins.Plugin, isBuiltin bool) *plugins.Plugin {
	q := &plugins.Plugin{Name: p.Name}
	name := p.Name
	if p.Setup4 != nil {
		s4 := p.Setup4
		q.Setup4 = func(args ...string) (handler.Handler4, error) {
			h, err := s4(args...)
			if err != nil || h == nil {
				return h, err
			}
			return func(req, resp *dhcpv4.DHCPv4) (*dhcpv4.DHCPv4, bool) {
				inv := &Invocation{Plugin: name, Args: strings.Join(args, " "), Builtin: isBuiltin, Index: -1, Lease: -1, ReqPtr: ptrOf(req), InPtr: ptrOf(resp), ReqSum: sum4(req)}
				if resp != nil {
					inv.Trail = trail4(resp)
				}
				r, stop := h(req, resp)
				inv.RespNil, inv.Stop, inv.OutPtr = r == nil, stop, ptrOf(r)
				if r != nil {
					inv.Yiaddr = append([]byte(nil), r.YourIPAddr...)
					inv.Lease = int64(r.IPAddressLeaseTime(-1))
					inv.MsgType = int(r.MessageType())
					inv.RT = roundTrip4(r)
					inv.OutSum = sum4(r)
				}
				simrt.UserLog(inv)
				return r, stop
			}, nil
		}
	}
	if p.Setup6 != nil {
		s6 := p.Setup6
		q.Setup6 = func(args ...string) (handler.Handler6, error) {
			h, err := s6(args...)
			if err != nil || h == nil {
				return h, err
			}
			return func(req, resp dhcpv6.DHCPv6) (dhcpv6.DHCPv6, bool) {
				inv := &Invocation{Plugin: name, Args: strings.Join(args, " "), V6: true, Builtin: isBuiltin, Index: -1, Lease: -1, ReqPtr: ptrOf(req), InPtr: ptrOf(resp), ReqSum: sum6(req)}
				if resp != nil {
					inv.Trail = trail6(resp)
				}
				r, stop := h(req, resp)
				inv.RespNil, inv.Stop, inv.OutPtr = r == nil, stop, ptrOf(r)
				if r != nil {
					observe6(inv, r)
					inv.RT = roundTrip6(r)
					inv.OutSum = sum6(r)
				}
				simrt.UserLog(inv)
				return r, stop
			}, nil
		}
	}
	return q
}

func sum4(r *dhcpv4.DHCPv4) (h uint64) {
	defer func() { recover() }()
	if r == nil {
		return 0
	}
	return hashBytes(r.ToBytes())
}

func sum6(r dhcpv6.DHCPv6) (h uint64) {
	defer func() { recover() }()
	if r == nil {
		return 0
	}
	return hashBytes(r.ToBytes())
}

// roundTrip4 checks that a response serialises and parses back to the same options.
func roundTrip4(r *dhcpv4.DHCPv4) (msg string) {
	defer func() {
		if e := recover(); e != nil {
			msg = fmt.Sprintf("serialising the response panics: %v", e)
		}
	}()
	b := r.ToBytes()
	m, err := dhcpv4.FromBytes(b)
	if err != nil {
		return fmt.Sprintf("the serialised response does not parse back: %v", err)
	}
	var codes []int
	for c := range r.Options {
		codes = append(codes, int(c))
	}
	sort.Ints(codes)
	for _, c := range codes {
		if c == 0 || c == 255 {
			continue
		}
		if !bytes.Equal(m.Options[uint8(c)], r.Options[uint8(c)]) {
			return fmt.Sprintf("option %d is % x in the response and % x after serialise+parse", c, r.Options[uint8(c)], m.Options[uint8(c)])
		}
	}
	for c := range m.Options {
		if _, ok := r.Options[c]; !ok && c != 0 && c != 255 {
			return fmt.Sprintf("option %d appears only after serialise+parse", c)
		}
	}
	if !bytes.Equal(m.ToBytes(), b) {
		return "re-serialising the parsed response gives different bytes"
	}
	return ""
}

// roundTrip6 checks that a response serialises, parses back and serialises to the same bytes.
func roundTrip6(r dhcpv6.DHCPv6) (msg string) {
	defer func() {
		if e := recover(); e != nil {
			msg = fmt.Sprintf("serialising the response panics: %v", e)
		}
	}()
	b := r.ToBytes()
	m, err := dhcpv6.FromBytes(b)
	if err != nil {
		return fmt.Sprintf("the serialised response does not parse back: %v", err)
	}
	if b2 := m.ToBytes(); !bytes.Equal(b2, b) {
		return fmt.Sprintf("the response serialises to % x, after parse+serialise it is % x", clipB(b, 96), clipB(b2, 96))
	}
	return ""
}

// PDObs is one IA_PD of a handler result.
type PDObs struct {
	IAID     [4]byte
	Prefixes []PfxObs
	Status   int // -1: no status option
}

// PfxObs is one IAPrefix.
type PfxObs struct {
	IP        net.IP
	Len       int
	Preferred time.Duration
	Valid     time.Duration
	NilPrefix bool
}

// NAObs is one IA_NA of a handler result.
type NAObs struct {
	IAID  [4]byte
	Addrs []net.IP
}

func observe6(inv *Invocation, r dhcpv6.DHCPv6) {
	m, ok := r.(*dhcpv6.Message)
	if !ok {
		return
	}
	inv.RespType = int(m.MessageType)
	for _, o := range m.Options.Options {
		inv.Opts = append(inv.Opts, int(o.Code()))
	}
	for _, pd := range m.Options.IAPD() {
		ob := PDObs{IAID: pd.IaId, Status: -1}
		if st := pd.Options.Status(); st != nil {
			ob.Status = int(st.StatusCode)
		}
		for _, p := range pd.Options.Prefixes() {
			po := PfxObs{Preferred: p.PreferredLifetime, Valid: p.ValidLifetime}
			if p.Prefix == nil {
				po.NilPrefix = true
			} else {
				po.IP = append(net.IP(nil), p.Prefix.IP...)
				po.Len, _ = p.Prefix.Mask.Size()
			}
			ob.Prefixes = append(ob.Prefixes, po)
		}
		inv.PD = append(inv.PD, ob)
	}
	for _, na := range m.Options.IANA() {
		ob := NAObs{IAID: na.IaId}
		for _, a := range na.Options.Addresses() {
			ob.Addrs = append(ob.Addrs, append(net.IP(nil), a.IPv6Addr...))
		}
		inv.NA = append(inv.NA, ob)
	}
}

// ---------------------------------------------------------------------------
// synthetic plugins (registered through plugins.RegisterPlugin like any other)
//
//	zz_syn  <id> <behaviour>   supports DHCPv4 and DHCPv6
//	zz_syn4 <id> <behaviour>   DHCPv4 only
//	zz_syn6 <id> <behaviour>   DHCPv6 only
//
// behaviours: pass | modify | replace | stop | stopnil | nak | failsetup | nilhandler
// "modify"/"replace"/"stop" append the tag <id> to a private trail option so the oracle can see
// which response object reached the wire.

const trailOpt4 = dhcpv4.GenericOptionCode(224)
const trailOpt6 = dhcpv6.OptionCode(65001)

func trail4(m *dhcpv4.DHCPv4) string { return string(m.Options.Get(trailOpt4)) }

func trail6(m dhcpv6.DHCPv6) string {
	for _, o := range m.GetOption(trailOpt6) {
		return string(o.ToBytes())
	}
	return ""
}

func addTrail4(m *dhcpv4.DHCPv4, id string) {
	m.UpdateOption(dhcpv4.OptGeneric(trailOpt4, []byte(trail4(m)+id+",")))
}

func addTrail6(m dhcpv6.DHCPv6, id string) {
	m.UpdateOption(&dhcpv6.OptionGeneric{OptionCode: trailOpt6, OptionData: []byte(trail6(m) + id + ",")})
}

func synSetup4(args ...string) (handler.Handler4, error) {
	if len(args) < 2 {
		return nil, errors.New("zz_syn: need id and behaviour")
	}
	id, beh := args[0], args[1]
	switch beh {
	case "failsetup":
		return nil, errors.New("zz_syn: setup failure requested")
	case "nilhandler":
		return nil, nil
	}
	return func(req, resp *dhcpv4.DHCPv4) (*dhcpv4.DHCPv4, bool) {
		switch beh {
		case "modify":
			addTrail4(resp, id)
			return resp, false
		case "replace":
			n := *resp
			n.Options = make(dhcpv4.Options)
			for k, v := range resp.Options {
				n.Options[k] = v
			}
			addTrail4(&n, id)
			return &n, false
		case "stop":
			addTrail4(resp, id)
			return resp, true
		case "stopnil":
			return nil, true
		case "racy":
			sharedCounter++
			return resp, false
		case "locked":
			sharedMu.Lock()
			sharedCounter++
			sharedMu.Unlock()
			return resp, false
		case "fresh":
			// a plugin that answers with a reply object it built itself: only what a client needs, no relay/flag fields
			n := &dhcpv4.DHCPv4{OpCode: dhcpv4.OpcodeBootReply, HWType: resp.HWType, TransactionID: resp.TransactionID,
				ClientHWAddr: resp.ClientHWAddr, ClientIPAddr: net.IPv4zero, YourIPAddr: resp.YourIPAddr, ServerIPAddr: net.IPv4zero,
				GatewayIPAddr: net.IPv4zero, Options: make(dhcpv4.Options)}
			n.UpdateOption(dhcpv4.OptMessageType(resp.MessageType()))
			addTrail4(n, id)
			return n, false
		case "nak":
			resp.UpdateOption(dhcpv4.OptMessageType(dhcpv4.MessageTypeNak))
			addTrail4(resp, id)
			return resp, false
		}
		return resp, false
	}, nil
}

func synSetup6(args ...string) (handler.Handler6, error) {
	if len(args) < 2 {
		return nil, errors.New("zz_syn: need id and behaviour")
	}
	id, beh := args[0], args[1]
	switch beh {
	case "failsetup":
		return nil, errors.New("zz_syn: setup failure requested")
	case "nilhandler":
		return nil, nil
	}
	return func(req, resp dhcpv6.DHCPv6) (dhcpv6.DHCPv6, bool) {
		switch beh {
		case "modify", "nak":
			addTrail6(resp, id)
			return resp, false
		case "replace":
			if m, ok := resp.(*dhcpv6.Message); ok {
				n := *m
				n.Options = dhcpv6.MessageOptions{Options: append(dhcpv6.Options(nil), m.Options.Options...)}
				addTrail6(&n, id)
				return &n, false
			}
			addTrail6(resp, id)
			return resp, false
		case "stop":
			addTrail6(resp, id)
			return resp, true
		case "stopnil":
			return nil, true
		}
		return resp, false
	}, nil
}

func syntheticPlugins() []*plugins.Plugin {
	return []*plugins.Plugin{
		observe(&plugins.Plugin{Name: "zz_syn", Setup4: synSetup4, Setup6: synSetup6}, false),
		observe(&plugins.Plugin{Name: "zz_syn4", Setup4: synSetup4}, false),
		observe(&plugins.Plugin{Name: "zz_syn6", Setup6: synSetup6}, false),
	}
}
