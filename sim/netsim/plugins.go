package netsim

import (
	"github.com/insomniacslk/dhcp/dhcpv4"
	"github.com/insomniacslk/dhcp/dhcpv6"

	"github.com/coredhcp/coredhcp/handler"
	"github.com/coredhcp/coredhcp/plugins"
	pl_autoconfigure "github.com/coredhcp/coredhcp/plugins/autoconfigure"
	pl_dns "github.com/coredhcp/coredhcp/plugins/dns"
	pl_file "github.com/coredhcp/coredhcp/plugins/file"
	pl_ipv6only "github.com/coredhcp/coredhcp/plugins/ipv6only"
	pl_leasetime "github.com/coredhcp/coredhcp/plugins/leasetime"
	pl_mtu "github.com/coredhcp/coredhcp/plugins/mtu"
	pl_nbp "github.com/coredhcp/coredhcp/plugins/nbp"
	pl_netmask "github.com/coredhcp/coredhcp/plugins/netmask"
	pl_prefix "github.com/coredhcp/coredhcp/plugins/prefix"
	pl_range "github.com/coredhcp/coredhcp/plugins/range"
	pl_router "github.com/coredhcp/coredhcp/plugins/router"
	pl_searchdomains "github.com/coredhcp/coredhcp/plugins/searchdomains"
	pl_serverid "github.com/coredhcp/coredhcp/plugins/serverid"
	pl_sleep "github.com/coredhcp/coredhcp/plugins/sleep"
	pl_staticroute "github.com/coredhcp/coredhcp/plugins/staticroute"
	"github.com/coredhcp/coredhcp/zzverif/simrt"
)

// the same list as cmds/coredhcp/main.go
var builtin = []*plugins.Plugin{
	&pl_autoconfigure.Plugin, &pl_dns.Plugin, &pl_file.Plugin, &pl_ipv6only.Plugin, &pl_leasetime.Plugin, &pl_mtu.Plugin, &pl_nbp.Plugin,
	&pl_netmask.Plugin, &pl_prefix.Plugin, &pl_range.Plugin, &pl_router.Plugin, &pl_searchdomains.Plugin, &pl_serverid.Plugin, &pl_sleep.Plugin, &pl_staticroute.Plugin,
}

// Invocation is logged by the observer wrapped around every handler (built-in and synthetic).
type Invocation struct {
	Plugin  string
	Index   int // position in the configured chain of its protocol (-1 unknown)
	V6      bool
	ReqPtr  uintptr
	InPtr   uintptr
	OutPtr  uintptr
	RespNil bool
	Stop    bool
	Builtin bool
	Trail   string
	Yiaddr  []byte // v4: yiaddr of the returned response
	Lease   int64  // v4: option 51 of the returned response in ns (-1 absent)
	MsgType int
	DG      int64
	At      int64 // simulated time when the handler returned
	Step    int64
}

var registered bool

func registerPlugins() {
	if registered {
		return
	}
	registered = true
	for _, p := range builtin {
		if err := plugins.RegisterPlugin(observe(p, true)); err != nil {
			panic(err)
		}
	}
	for _, p := range syntheticPlugins() {
		if err := plugins.RegisterPlugin(p); err != nil {
			panic(err)
		}
	}
}

// observe wraps a plugin so that every handler invocation is logged; behaviour is unchanged.
func observe(p *plugins.Plugin, isBuiltin bool) *plugins.Plugin {
	q := &plugins.Plugin{Name: p.Name}
	name := p.Name
	if p.Setup4 != nil {
		s4 := p.Setup4
		q.Setup4 = func(args ...string) (handler.Handler4, error) {
			h, err := s4(args...)
			if err != nil || h == nil {
				return h, err
			}
			return func(req, resp *dhcpv4.DHCPv4) (*dhcpv4.DHCPv4, bool) {
				r, stop := h(req, resp)
				inv := &Invocation{Plugin: name, RespNil: r == nil, Stop: stop, Builtin: isBuiltin, Index: -1, Lease: -1}
				if r != nil {
					inv.Yiaddr = append([]byte(nil), r.YourIPAddr...)
					inv.Lease = int64(r.IPAddressLeaseTime(-1))
					inv.MsgType = int(r.MessageType())
				}
				simrt.UserLog(inv)
				return r, stop
			}, nil
		}
	}
	if p.Setup6 != nil {
		s6 := p.Setup6
		q.Setup6 = func(args ...string) (handler.Handler6, error) {
			h, err := s6(args...)
			if err != nil || h == nil {
				return h, err
			}
			return func(req, resp dhcpv6.DHCPv6) (dhcpv6.DHCPv6, bool) {
				r, stop := h(req, resp)
				simrt.UserLog(&Invocation{Plugin: name, V6: true, RespNil: r == nil, Stop: stop, Builtin: isBuiltin, Index: -1})
				return r, stop
			}, nil
		}
	}
	return q
}

func syntheticPlugins() []*plugins.Plugin { return nil }
