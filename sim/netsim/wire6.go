package netsim

import (
	"bytes"
	"fmt"
	"net"
	"path/filepath"

	"github.com/insomniacslk/dhcp/dhcpv4"
	"github.com/insomniacslk/dhcp/dhcpv6"
	"github.com/insomniacslk/dhcp/iana"

	"github.com/coredhcp/coredhcp/zzverif/simrt"
)

// wire6: arbitrary DHCPv6 message types, relay nesting and source addresses
// through the real HandleMsg6 (C12). serverid: the server_id plugin's accept /
// discard table and identifier stamping, DHCPv6 and DHCPv4 (C14).
type wire6 struct {
	baseScenario
	serverid bool
	clients6 []*Client6
	clients4 []*Client4
	sid6     dhcpv6.DUID
	sid4     net.IP
}

func init() {
	registerScenario("wire6", func() scenario { return &wire6{} })
	registerScenario("serverid", func() scenario { return &wire6{serverid: true} })
}

func (s *wire6) Name() string {
	if s.serverid {
		return "serverid"
	}
	return "wire6"
}

type w6meta struct {
	inner      *dhcpv6.Message
	depth      int
	layers     []RelayLayer
	sidState   string // none | own | other
	noRelayMsg bool
}

type w4sid struct {
	siaddr, opt54 string // absent | zero | own | other
}

func (s *wire6) Plan(w *World) {
	t := w.T
	w.Ifaces = defaultIfaces(3)
	w.Has6 = true
	mac := net.HardwareAddr{0, 0x11, 0x22, 0x33, 0x44, 0x55}
	if t.Draw(3) == 0 {
		mac = net.HardwareAddr{2, 0, 0, 0xff, 0xfe, 0, 0, 9} // EUI-64
	}
	kinds := []string{"LL", "ll", "duid-ll", "duid_ll", "LLT", "llt", "duid-llt", "DUID_LLT"}
	kind := kinds[t.Pick(len(kinds))]
	macForms := []string{mac.String(), bytes.NewBufferString(mac.String()).String()}
	if len(mac) == 6 {
		macForms = append(macForms, fmt.Sprintf("%02x-%02x-%02x-%02x-%02x-%02x", mac[0], mac[1], mac[2], mac[3], mac[4], mac[5]),
			fmt.Sprintf("%02x%02x.%02x%02x.%02x%02x", mac[0], mac[1], mac[2], mac[3], mac[4], mac[5]))
	}
	if kind[len(kind)-1] == 't' || kind[len(kind)-1] == 'T' {
		s.sid6 = &dhcpv6.DUIDLLT{HWType: iana.HWTypeEthernet, Time: 0, LinkLayerAddr: mac}
	} else {
		s.sid6 = &dhcpv6.DUIDLL{HWType: iana.HWTypeEthernet, LinkLayerAddr: mac}
	}
	sidConf := PluginConf{"server_id", []string{kind, macForms[t.Pick(len(macForms))]}}
	s.sid4 = net.IP{10, 0, 0, byte(1 + t.Draw(200))}
	sid4Conf := PluginConf{"server_id", []string{s.sid4.String()}}
	if t.Draw(4) == 0 {
		sid4Conf.Args[0] = "::ffff:" + s.sid4.String() // accepted spelling of the same address
	}
	if s.serverid {
		w.Has4 = true
		w.Chain6 = []PluginConf{sidConf}
		w.Chain4 = []PluginConf{sid4Conf}
		switch t.Draw(3) {
		case 0:
			w.Chain6 = append(w.Chain6, PluginConf{"dns", []string{"2001:db8::53"}})
			w.Chain4 = append(w.Chain4, PluginConf{"range", []string{filepath.Join(w.Dir, "sid.sqlite3"), "10.0.1.1", "10.0.1.50", "60s"}})
		case 1:
			w.Chain6 = append(w.Chain6, PluginConf{"prefix", []string{"2001:db8:1::/48", "56"}})
			w.Chain4 = append(w.Chain4, PluginConf{"netmask", []string{"255.255.255.0"}})
		}
		if t.Draw(2) == 0 {
			// the identifier has to survive whatever else is configured: any subset of the other option plugins around it,
			// server_id at a drawn position but ahead of the plugins that may end the chain (nbp always does, ipv6only
			// for clients that opt in): what an earlier plugin sends without consulting server_id is not server_id's doing
			o4 := subsetOrder(t, []PluginConf{{"dns", []string{"10.0.0.2"}}, {"router", []string{"10.0.0.254"}}, {"lease_time", []string{"90s"}},
				{"mtu", []string{"1400"}}, {"searchdomains", []string{"a.example"}}, {"staticroute", []string{"10.9.0.0/16,10.0.0.254"}},
				{"ipv6only", []string{"300s"}}, {"autoconfigure", []string{"1"}},
				{"nbp", []string{[]string{"tftp://192.0.2.200/pxelinux.0", "tftp://boot.example/pxelinux.0", "http://192.0.2.200/boot.efi"}[t.Pick(3)]}}})
			o6 := subsetOrder(t, []PluginConf{{"searchdomains", []string{"a.example"}}, {"nbp", []string{"http://[2001:db8::9]/b.efi"}}, {"sleep", []string{"1ms"}}})
			p4, p6 := t.Pick(len(o4)+1), t.Pick(len(o6)+1)
			stopsLast := func(l []PluginConf, p int) ([]PluginConf, int) {
				var head, tail []PluginConf
				for i, c := range l {
					if i < p && (c.Name == "nbp" || c.Name == "ipv6only") {
						tail = append(tail, c)
					} else if i < p {
						head = append(head, c)
					}
				}
				return append(append(append([]PluginConf{}, head...), l[p:]...), tail...), len(head)
			}
			o4, p4 = stopsLast(o4, p4)
			o6, p6 = stopsLast(o6, p6)
			w.Chain4 = append(append(append([]PluginConf{}, o4[:p4]...), w.Chain4...), o4[p4:]...)
			w.Chain6 = append(append(append([]PluginConf{}, o6[:p6]...), w.Chain6...), o6[p6:]...)
			w.Probe("serverid.among_other_plugins")
		}
	} else {
		switch t.Draw(5) {
		case 0:
		case 1:
			w.Chain6 = []PluginConf{sidConf}
		case 2:
			w.Chain6 = []PluginConf{{"prefix", []string{"2001:db8:1::/48", "56"}}, {"dns", []string{"2001:db8::53"}}}
		case 3:
			w.Chain6 = []PluginConf{{"searchdomains", []string{"a.example"}}, {"sleep", []string{"2ms"}}, {"nbp", []string{"http://[2001:db8::9]/boot.efi"}}}
		default:
			w.Chain6 = []PluginConf{{"zz_syn6", []string{"a", "modify"}}, sidConf, {"zz_syn", []string{"b", "replace"}}}
		}
	}
	switch t.Draw(6) {
	case 0:
		w.LSpecs = []ListenerSpec{{V6: true, IfIndex: 0}, {V6: false, IfIndex: 0}}
	case 1:
		w.LSpecs = []ListenerSpec{{V6: true, IfIndex: 2}, {V6: true, IfIndex: 3}, {V6: true, IfIndex: 4}, {V6: false, IfIndex: 2}, {V6: false, IfIndex: 3}, {V6: false, IfIndex: 4}}
	case 2:
		w.LSpecs = []ListenerSpec{{V6: true, IfIndex: 3}, {V6: true, IfIndex: 0}, {V6: false, IfIndex: 0}}
	case 3:
		// the site-scoped All_DHCP_Servers group without a zone (part of the default configuration): joined on no
		// particular interface, not bound to one
		w.LSpecs = []ListenerSpec{{V6: true, Addr: net.ParseIP("ff05::1:3")}, {V6: false, Addr: ifaceAddr4(3)}}
	case 4:
		// a global unicast address without a zone
		w.LSpecs = []ListenerSpec{{V6: true, Addr: ifaceAddr6(2 + int(t.Draw(3)))}, {V6: false, IfIndex: 0}}
	default:
		// a link-local unicast address on its interface, the wildcard for the other links
		w.LSpecs = []ListenerSpec{{V6: true, IfIndex: 3, Addr: ifaceLL6(3)}, {V6: true, IfIndex: 0}, {V6: false, IfIndex: 0}}
	}
	for i := 0; i < 4; i++ {
		s.clients6 = append(s.clients6, newClient6(t, i, 2+int(t.Draw(3))))
		s.clients4 = append(s.clients4, &Client4{ID: i, MAC: drawMAC(t, 6, i+1), Link: 2 + int(t.Draw(3)), Bcast: true})
	}
	w.FaultsOn = t.Draw(2) == 1
	if w.FaultsOn {
		w.DupPct = int(t.Draw(30))
		w.DelayMaxNs = 1e9
	}
	w.Sim.SetPoolReuse(int(t.Draw(3)))
	w.Sim.SetPoolStale(t.Draw(2) == 1)
	n := t.Range(2, 30)
	var at int64
	for i := 0; i < n; i++ {
		if t.Draw(2) == 0 {
			at += int64(t.Draw(2000)) * 1e6
		} else {
			at += int64(t.Draw(40)) * 1000
		}
		i := i
		w.Sim.After(at, func() {
			if s.serverid && t.Draw(3) == 0 {
				s.send4(w, s.clients4[i%4])
			} else {
				s.send6(w, s.clients6[i%4])
			}
		})
	}
}

func (s *wire6) otherDUID(t *simrt.Tape) dhcpv6.DUID {
	switch t.Draw(8) {
	case 0:
		return &dhcpv6.DUIDLL{HWType: iana.HWTypeEthernet, LinkLayerAddr: net.HardwareAddr{0, 0x11, 0x22, 0x33, 0x44, 0x56}}
	case 1:
		// the other DUID kind over the same link-layer address
		if ll, ok := s.sid6.(*dhcpv6.DUIDLL); ok {
			return &dhcpv6.DUIDLLT{HWType: ll.HWType, Time: 0, LinkLayerAddr: ll.LinkLayerAddr}
		}
		llt := s.sid6.(*dhcpv6.DUIDLLT)
		return &dhcpv6.DUIDLL{HWType: llt.HWType, LinkLayerAddr: llt.LinkLayerAddr}
	case 2:
		// equal prefix, one byte longer
		b := append(s.sid6.ToBytes(), 0)
		d, err := dhcpv6.DUIDFromBytes(b)
		if err == nil {
			return d
		}
		return &dhcpv6.DUIDOpaque{Type: 99, Data: b}
	case 3:
		// equal prefix, one byte shorter
		b := s.sid6.ToBytes()
		d, err := dhcpv6.DUIDFromBytes(b[:len(b)-1])
		if err == nil {
			return d
		}
		return &dhcpv6.DUIDOpaque{Type: 99, Data: b[:len(b)-1]}
	case 4:
		return &dhcpv6.DUIDEN{EnterpriseNumber: 7, EnterpriseIdentifier: []byte{1, 2, 3}}
	case 5:
		return &dhcpv6.DUIDUUID{UUID: [16]byte{1, 2, 3}}
	case 6:
		if llt, ok := s.sid6.(*dhcpv6.DUIDLLT); ok {
			return &dhcpv6.DUIDLLT{HWType: llt.HWType, Time: 1, LinkLayerAddr: llt.LinkLayerAddr}
		}
		ll := s.sid6.(*dhcpv6.DUIDLL)
		return &dhcpv6.DUIDLL{HWType: iana.HWType(6), LinkLayerAddr: ll.LinkLayerAddr}
	default:
		return &dhcpv6.DUIDOpaque{Type: 200, Data: []byte{9}}
	}
}

func (s *wire6) send6(w *World, c *Client6) {
	t := w.T
	common := []dhcpv6.MessageType{dhcpv6.MessageTypeSolicit, dhcpv6.MessageTypeRequest, dhcpv6.MessageTypeConfirm, dhcpv6.MessageTypeRenew, dhcpv6.MessageTypeRebind,
		dhcpv6.MessageTypeRelease, dhcpv6.MessageTypeDecline, dhcpv6.MessageTypeInformationRequest, dhcpv6.MessageTypeSolicit, dhcpv6.MessageTypeRequest}
	mt := common[t.Pick(len(common))]
	if !s.serverid && t.Draw(4) == 0 {
		mt = dhcpv6.MessageType(t.Draw(256))
	}
	cc := *c
	if t.Draw(6) == 0 {
		cc.DUID = nil // no client identifier
	}
	m := w.build6(&cc, mt)
	if mt == dhcpv6.MessageTypeSolicit && t.Draw(2) == 1 {
		m.AddOption(&dhcpv6.OptionGeneric{OptionCode: dhcpv6.OptionRapidCommit})
	}
	if t.Draw(3) == 0 {
		m.AddOption(&dhcpv6.OptIAPD{IaId: [4]byte{1, 2, 3, byte(c.ID)}})
	}
	if t.Draw(3) == 0 {
		m.AddOption(dhcpv6.OptRequestedOption(dhcpv6.OptionDNSRecursiveNameServer, dhcpv6.OptionBootfileURL))
	}
	meta := &w6meta{inner: m, sidState: "none"}
	hasSID := false
	for _, p := range w.Chain6 {
		if p.Name == "server_id" {
			hasSID = true
		}
	}
	switch t.Draw(4) {
	case 0:
	case 1, 2:
		if hasSID || t.Draw(2) == 0 {
			m.AddOption(dhcpv6.OptServerID(s.sid6))
			meta.sidState = "own"
		}
	default:
		m.AddOption(dhcpv6.OptServerID(s.otherDUID(t)))
		meta.sidState = "other"
	}
	depth := []int{0, 0, 1, 2, 3, 4}[t.Pick(6)]
	cc.Relays = drawRelays(t, depth, &cc)
	meta.depth = depth
	meta.layers = cc.Relays
	cc.SrcGlobal = depth == 0 && t.Draw(3) == 0
	kind := fmt.Sprintf("%s sid=%s", mt, meta.sidState)
	if cc.DUID == nil {
		kind += " no-client-id"
	}
	li := w.listenerFor(true, c.Link)
	if li < 0 {
		return
	}
	out := encapsulate(m, cc.Relays)
	if depth > 0 && !s.serverid && t.Draw(8) == 0 {
		// wire-only: an outer Relay-Forward without a relay-message option
		r := out.(*dhcpv6.RelayMessage)
		r.Options.Del(dhcpv6.OptionRelayMsg)
		meta.noRelayMsg = true
		kind += " NO-RELAY-MSG-OPTION"
	}
	if depth > 0 && !s.serverid && t.Draw(10) == 0 {
		out.(*dhcpv6.RelayMessage).MessageType = dhcpv6.MessageTypeRelayReply
		kind += " OUTER-IS-RELAY-REPLY"
	}
	b := out.ToBytes()
	if !s.serverid {
		switch t.Draw(12) {
		case 0:
			b = b[:t.Pick(len(b))]
			kind += " TRUNCATED"
		case 1:
			b[t.Pick(len(b))] ^= 1 << t.Draw(8)
			kind += " BITFLIP"
		}
	}
	ifx := c.Link
	w.Send(li, b, w.src6(&cc), ifx, fmt.Sprintf("%s %s xid=%x depth=%d", c, kind, m.TransactionID[:], depth), c.ID, meta)
}

func (s *wire6) send4(w *World, c *Client4) {
	t := w.T
	mt := dhcpv4.MessageTypeDiscover
	if t.Draw(2) == 1 {
		mt = dhcpv4.MessageTypeRequest
	}
	m := w.build4(c, mt)
	meta := &w4sid{siaddr: "absent", opt54: "absent"}
	other := net.IP{10, 0, 0, 250}
	switch t.Draw(4) {
	case 1:
		m.ServerIPAddr = net.IPv4zero
		meta.siaddr = "zero"
	case 2:
		m.ServerIPAddr = s.sid4
		meta.siaddr = "own"
	case 3:
		m.ServerIPAddr = other
		meta.siaddr = "other"
	}
	switch t.Draw(4) {
	case 1:
		m.UpdateOption(dhcpv4.OptServerIdentifier(net.IPv4zero))
		meta.opt54 = "zero"
	case 2:
		m.UpdateOption(dhcpv4.OptServerIdentifier(s.sid4))
		meta.opt54 = "own"
	case 3:
		m.UpdateOption(dhcpv4.OptServerIdentifier(other))
		meta.opt54 = "other"
	}
	li := w.listenerFor(false, c.Link)
	if li < 0 {
		return
	}
	w.Send(li, m.ToBytes(), src4(c), c.Link, fmt.Sprintf("%s %s siaddr=%s opt54=%s", c, mt, meta.siaddr, meta.opt54), c.ID, meta)
}

func (s *wire6) OnReply(w *World, dg *DG, r *Reply) {
	if dg.V6 {
		checkC12(w, dg, r)
		if s.serverid {
			s.checkSID6Reply(w, dg, r)
		}
		return
	}
	checkC11(w, dg, r)
	checkC15(w, dg, r)
	if s.serverid && r.Msg4 != nil {
		if sid := r.Msg4.ServerIdentifier(); !sid.Equal(s.sid4) {
			w.Violate("C14", "v4-option54", "reply to dg%d (%s) carries server identifier %v, configured %s", dg.ID, dg.Kind, sid, s.sid4)
		}
		if !r.Msg4.ServerIPAddr.Equal(s.sid4) {
			w.Violate("C14", "v4-siaddr", "reply to dg%d (%s) carries siaddr %v, configured %s", dg.ID, dg.Kind, r.Msg4.ServerIPAddr, s.sid4)
		}
		if m, ok := dg.Meta.(*w4sid); ok && (m.siaddr == "other" || m.opt54 == "other") {
			w.Violate("C14", "v4-answered-other-server/siaddr="+m.siaddr+",opt54="+m.opt54, "dg%d (%s) names another server (siaddr %s, option 54 %s) but was answered", dg.ID, dg.Kind, m.siaddr, m.opt54)
		}
		w.Probe("serverid.v4_reply_checked")
	}
}

func (s *wire6) checkSID6Reply(w *World, dg *DG, r *Reply) {
	if r.Msg6 == nil {
		return
	}
	inner, err := r.Msg6.GetInnerMessage()
	if err != nil {
		return
	}
	sids := inner.GetOption(dhcpv6.OptionServerID)
	if len(sids) != 1 {
		w.Violate("C14", "v6-serverid-count", "reply to dg%d (%s) carries %d Server Identifier options", dg.ID, dg.Kind, len(sids))
		return
	}
	if got := inner.Options.ServerID(); got == nil || !bytes.Equal(got.ToBytes(), s.sid6.ToBytes()) {
		w.Violate("C14", "v6-serverid-value", "reply to dg%d (%s) carries Server Identifier %v, configured %v", dg.ID, dg.Kind, got, s.sid6)
	}
	m, _ := dg.Meta.(*w6meta)
	if m == nil {
		return
	}
	if !sid6Expect(m.inner.MessageType, m.sidState) {
		w.Violate("C14", fmt.Sprintf("v6-answered-should-discard/%s/sid=%s", m.inner.MessageType, m.sidState), "dg%d (%s): RFC 8415 §16 requires this message to be discarded, it was answered", dg.ID, dg.Kind)
	}
	w.Probe("serverid.v6_reply_checked")
}

// sid6Expect: does RFC 8415 §16 let the server_id plugin pass a message of this type with this Server Identifier state?
func sid6Expect(mt dhcpv6.MessageType, sid string) bool {
	if sid == "other" {
		return false
	}
	switch mt {
	case dhcpv6.MessageTypeSolicit, dhcpv6.MessageTypeConfirm, dhcpv6.MessageTypeRebind:
		return sid == "none"
	case dhcpv6.MessageTypeRequest, dhcpv6.MessageTypeRenew, dhcpv6.MessageTypeDecline, dhcpv6.MessageTypeRelease:
		return sid == "own"
	}
	return true
}

func supported6(mt dhcpv6.MessageType) bool {
	switch mt {
	case dhcpv6.MessageTypeSolicit, dhcpv6.MessageTypeRequest, dhcpv6.MessageTypeConfirm, dhcpv6.MessageTypeRenew, dhcpv6.MessageTypeRebind, dhcpv6.MessageTypeRelease, dhcpv6.MessageTypeInformationRequest:
		return true
	}
	return false
}

func (s *wire6) OnHandled(w *World, dg *DG) {
	if len(dg.Replies) > 0 {
		return
	}
	w.Probe("wire6.no_reply")
	if !s.serverid {
		return
	}
	// C14 completeness: a message the plugin must let pass, of a type the server answers, with a client id, is answered
	if dg.V6 {
		m, _ := dg.Meta.(*w6meta)
		if m == nil || m.inner.Options.ClientID() == nil || !supported6(m.inner.MessageType) {
			return
		}
		if sid6Expect(m.inner.MessageType, m.sidState) {
			for _, inv := range dg.Invs {
				if inv.Plugin == "server_id" && inv.RespNil {
					w.Violate("C14", fmt.Sprintf("v6-discarded-should-answer/%s/sid=%s", m.inner.MessageType, m.sidState), "dg%d (%s): the server_id plugin discarded a message RFC 8415 §16 does not tell it to discard", dg.ID, dg.Kind)
				}
			}
		} else {
			w.Probe("serverid.v6_discarded")
		}
		return
	}
	if m, ok := dg.Meta.(*w4sid); ok {
		if m.siaddr != "other" && m.opt54 != "other" {
			for _, inv := range dg.Invs {
				if inv.Plugin == "server_id" && inv.RespNil {
					w.Violate("C14", "v4-discarded-own", "dg%d (%s): a request that names no other server was discarded by server_id", dg.ID, dg.Kind)
				}
			}
		} else {
			w.Probe("serverid.v4_discarded")
		}
	}
}

// relayLayersOf walks the Relay layers of a parsed message, outermost first.
func relayLayersOf(d dhcpv6.DHCPv6) ([]*dhcpv6.RelayMessage, *dhcpv6.Message) {
	var ls []*dhcpv6.RelayMessage
	cur := d
	for i := 0; i < 64; i++ {
		switch x := cur.(type) {
		case *dhcpv6.Message:
			return ls, x
		case *dhcpv6.RelayMessage:
			ls = append(ls, x)
			cur = x.Options.RelayMessage()
			if cur == nil {
				return ls, nil
			}
		default:
			return ls, nil
		}
	}
	return ls, nil
}

// checkC12: DHCPv6 reply matches its request; relayed requests get a mirrored Relay-Reply.
func checkC12(w *World, dg *DG, r *Reply) {
	if !dg.V6 {
		return
	}
	bad := func(class, format string, a ...interface{}) {
		w.Violate("C12", class, "reply to dg%d (%s): %s", dg.ID, dg.Kind, fmt.Sprintf(format, a...))
	}
	if dg.ParseErr != nil || dg.Req6 == nil {
		bad("answered-unparseable", "the datagram does not parse (%v) but was answered", dg.ParseErr)
		return
	}
	reqLayers, reqInner := relayLayersOf(dg.Req6)
	if reqInner == nil {
		bad("answered-no-inner", "the datagram has no innermost client message but was answered")
		return
	}
	if r.ParseErr != nil || r.Msg6 == nil {
		bad("reply-unparseable", "the reply does not parse: %v", r.ParseErr)
		return
	}
	repLayers, repInner := relayLayersOf(r.Msg6)
	if repInner == nil {
		bad("reply-no-inner", "the reply has no innermost message")
		return
	}
	mt := reqInner.MessageType
	want := dhcpv6.MessageTypeReply
	switch mt {
	case dhcpv6.MessageTypeSolicit:
		if reqInner.GetOneOption(dhcpv6.OptionRapidCommit) == nil {
			want = dhcpv6.MessageTypeAdvertise
		}
	case dhcpv6.MessageTypeRequest, dhcpv6.MessageTypeConfirm, dhcpv6.MessageTypeRenew, dhcpv6.MessageTypeRebind, dhcpv6.MessageTypeRelease, dhcpv6.MessageTypeInformationRequest:
	default:
		bad("answered-unsupported-type", "message type %v is not answered by a DHCPv6 server, but a reply was sent", mt)
		return
	}
	if repInner.MessageType != want {
		bad("type", "reply type is %v, want %v for %v", repInner.MessageType, want, mt)
	}
	if mt == dhcpv6.MessageTypeSolicit && want == dhcpv6.MessageTypeReply && repInner.GetOneOption(dhcpv6.OptionRapidCommit) == nil {
		bad("rapid-commit", "REPLY to a SOLICIT with Rapid Commit does not echo the Rapid Commit option")
	}
	if repInner.TransactionID != reqInner.TransactionID {
		bad("xid", "transaction id %x, request has %x", repInner.TransactionID, reqInner.TransactionID)
	}
	rc, qc := repInner.GetOneOption(dhcpv6.OptionClientID), reqInner.GetOneOption(dhcpv6.OptionClientID)
	if qc == nil {
		bad("answered-without-client-id", "the request has no client identifier but was answered")
	} else if rc == nil || !bytes.Equal(rc.ToBytes(), qc.ToBytes()) {
		bad("client-id", "client identifier differs from the request's")
	}
	if len(repLayers) != len(reqLayers) {
		bad("relay-depth", "request was relayed through %d layers, the reply has %d", len(reqLayers), len(repLayers))
	} else {
		for i := range reqLayers {
			q, p := reqLayers[i], repLayers[i]
			if i == 0 && q.MessageType != dhcpv6.MessageTypeRelayForward {
				bad("answered-relay-reply", "layer %d of the request is %v, not Relay-Forward, but it was answered", i, q.MessageType)
			}
			if p.MessageType != dhcpv6.MessageTypeRelayReply {
				bad("relay-type", "layer %d of the reply is %v, want Relay-Reply", i, p.MessageType)
			}
			if !p.LinkAddr.Equal(q.LinkAddr) || !p.PeerAddr.Equal(q.PeerAddr) {
				bad("relay-addresses", "layer %d: link/peer address %s/%s, request has %s/%s", i, p.LinkAddr, p.PeerAddr, q.LinkAddr, q.PeerAddr)
			}
			qi, pi := q.GetOneOption(dhcpv6.OptionInterfaceID), p.GetOneOption(dhcpv6.OptionInterfaceID)
			if (qi == nil) != (pi == nil) || (qi != nil && !bytes.Equal(qi.ToBytes(), pi.ToBytes())) {
				bad("relay-interface-id", "layer %d: Interface-ID not mirrored", i)
			}
		}
		if len(reqLayers) >= 2 {
			w.Probe("handle6.relay_depth>=2")
		}
	}
	// what goes out (inside the Relay-Reply layers, if any) is the plugin chain's answer, not some other object
	var last *Invocation
	for _, inv := range dg.Invs {
		if inv.V6 {
			last = inv
		}
	}
	if last != nil && !last.RespNil && last.OutSum != 0 && last.RT == "" {
		if hashBytes(repInner.ToBytes()) != last.OutSum {
			bad("answer-not-chain-result", "the message sent (inside %d Relay-Reply layers) is not the response the last handler (%s) returned", len(repLayers), last.Plugin)
		} else {
			w.Probe("wire6.answer_is_chain_result")
		}
	}
	c := r.Cap
	if !net.IP(c.DstIP).Equal(dg.Src.IP) || c.DstPort != dg.Src.Port {
		bad("destination", "sent to [%s]:%d, the request came from [%s]:%d", net.IP(c.DstIP), c.DstPort, dg.Src.IP, dg.Src.Port)
	}
	if dg.Src.IP.IsLinkLocalUnicast() {
		wantIf := w.LSpecs[dg.L].IfIndex
		if wantIf == 0 {
			wantIf = dg.IfIndex
			w.Probe("handle6.pinned_unbound")
		} else {
			w.Probe("handle6.pinned_bound")
		}
		if !c.HasCM || c.IfIndex != wantIf {
			bad("interface", "reply to link-local %s must leave on interface %d, control message present=%v index=%d", dg.Src.IP, wantIf, c.HasCM, c.IfIndex)
		}
	} else if c.HasCM && c.IfIndex != 0 {
		bad("pinned-global", "reply to global %s is pinned to interface %d", dg.Src.IP, c.IfIndex)
	} else {
		w.Probe("handle6.global_unpinned")
	}
	w.Probe("wire6.reply_checked")
}
