// Package sim4 stands in for the parts of golang.org/x/net/ipv4 that server.listen4 and the DHCPv4 receive and send
// paths use: simbuild rewrites ipv4.PacketConn / ipv4.NewPacketConn to the names below (ipv4.ControlMessage and the
// flag constants stay the real ones). The socket behind it is simrt's; what the kernel would do is modelled here:
// ReadFrom returns a control message only when SetControlMessage asked for packet information (IP_PKTINFO carries
// the receiving interface and the destination address together), nil otherwise, as the real ReadFrom does.
//
// Functions here are deliberately visible to the race detector (they are not //go:norace): they run in the context
// of the server's own goroutines.
package sim4

import (
	"errors"
	"net"

	"golang.org/x/net/ipv4"

	"github.com/coredhcp/coredhcp/zzverif/simrt"
)

// PacketConn mirrors the method set of *ipv4.PacketConn the server relies on.
type PacketConn struct {
	c *simrt.UDPConn
}

// NewPacketConn mirrors ipv4.NewPacketConn.
func NewPacketConn(c *simrt.UDPConn) *PacketConn { return &PacketConn{c: c} }

func (p *PacketConn) ok() bool { return p != nil && p.c != nil }

func flags(cf ipv4.ControlFlags) int {
	f := 0
	if cf&ipv4.FlagTTL != 0 {
		f |= simrt.CFlagHop
	}
	if cf&ipv4.FlagSrc != 0 {
		f |= simrt.CFlagSrc
	}
	if cf&ipv4.FlagDst != 0 {
		f |= simrt.CFlagDst
	}
	if cf&ipv4.FlagInterface != 0 {
		f |= simrt.CFlagInterface
	}
	return f
}

// SetControlMessage mirrors (*ipv4.PacketConn).SetControlMessage.
func (p *PacketConn) SetControlMessage(cf ipv4.ControlFlags, on bool) error {
	if !p.ok() {
		return errors.New("invalid connection")
	}
	return simrt.PortSetControl(p.c.ID(), flags(cf), on)
}

// JoinGroup mirrors (*ipv4.PacketConn).JoinGroup.
func (p *PacketConn) JoinGroup(ifi *net.Interface, group net.Addr) error {
	if !p.ok() {
		return errors.New("invalid connection")
	}
	return simrt.PortJoinGroup(p.c.ID(), ifi, group)
}

// ReadFrom mirrors (*ipv4.PacketConn).ReadFrom.
func (p *PacketConn) ReadFrom(b []byte) (int, *ipv4.ControlMessage, net.Addr, error) {
	if !p.ok() {
		return 0, nil, nil, errors.New("invalid connection")
	}
	n, ifindex, dst, src, err := simrt.NetRead(p.c.ID(), b)
	if err != nil {
		return 0, nil, nil, err
	}
	var cm *ipv4.ControlMessage
	cf := simrt.PortControl(p.c.ID())
	if cf&(simrt.CFlagSrc|simrt.CFlagDst|simrt.CFlagInterface) != 0 {
		cm = &ipv4.ControlMessage{IfIndex: ifindex, Dst: dst}
	}
	if cf&simrt.CFlagHop != 0 {
		if cm == nil {
			cm = &ipv4.ControlMessage{}
		}
		cm.TTL = 64
	}
	return n, cm, src, nil
}

// WriteTo mirrors (*ipv4.PacketConn).WriteTo.
func (p *PacketConn) WriteTo(b []byte, cm *ipv4.ControlMessage, dst net.Addr) (int, error) {
	if !p.ok() {
		return 0, errors.New("invalid connection")
	}
	idx := 0
	if cm != nil {
		idx = cm.IfIndex
	}
	return simrt.NetWrite(p.c.ID(), b, cm != nil, idx, dst)
}

func (p *PacketConn) LocalAddr() net.Addr {
	if !p.ok() {
		return nil
	}
	return p.c.LocalAddr()
}

func (p *PacketConn) Close() error {
	if !p.ok() {
		return errors.New("invalid connection")
	}
	return p.c.Close()
}
