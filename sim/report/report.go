// Package report defines the per-run record simrun prints (one JSON line per run).
package report

// Finding is a violation (or a note about another property) seen in a run.
type Finding struct {
	Property string `json:"property"`
	Class    string `json:"class"`
	Detail   string `json:"detail"`
}

// Run is the summary of one simulated run.
type Run struct {
	Seed         uint64           `json:"seed"`
	Index        int              `json:"index"`
	Engine       string           `json:"engine"`
	Property     string           `json:"property"`
	Scenario     string           `json:"scenario,omitempty"`
	Desc         string           `json:"desc"`
	NonTrivial   bool             `json:"nontrivial"`
	Discarded    string           `json:"discarded,omitempty"` // run could not speak about the property (reason)
	Steps        int64            `json:"steps"`
	Switches     int64            `json:"switches"`
	SwitchHash   uint64           `json:"switch_hash"`
	StateHash    uint64           `json:"state_hash"`
	SimNs        int64            `json:"sim_ns"`
	Incarnations int              `json:"incarnations,omitempty"`
	Datagrams    int              `json:"datagrams,omitempty"`
	Replies      int              `json:"replies,omitempty"`
	Faults       map[string]int64 `json:"faults,omitempty"`
	Probes       map[string]int64 `json:"probes,omitempty"`
	Findings     []Finding        `json:"findings,omitempty"`
	Notes        []Finding        `json:"notes,omitempty"`
	Unknown      bool             `json:"unknown,omitempty"`
	Sample       []string         `json:"sample,omitempty"`
	Tape         []uint32         `json:"tape,omitempty"`
	Overrun      int              `json:"overrun,omitempty"`
	Known        bool             `json:"known,omitempty"`
	FaultsOn     bool             `json:"faults_on,omitempty"`
	EndReason    string           `json:"end,omitempty"`
}

// ReplayFile is what a VIOLATION line points to.
type ReplayFile struct {
	Property  string   `json:"property"`
	Engine    string   `json:"engine"`
	Scenario  string   `json:"scenario,omitempty"`
	Seed      uint64   `json:"seed"`
	Known     bool     `json:"known,omitempty"`
	Class     string   `json:"class"`
	Detail    string   `json:"detail"`
	TreeHash  string   `json:"tree_hash,omitempty"`
	Minimised bool     `json:"minimised"`
	Tape      []uint32 `json:"tape"`
	Trace     []string `json:"trace,omitempty"`
}
