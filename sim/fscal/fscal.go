// Package fscal compares the simulator's inotify/fsnotify model with the real fsnotify library on tmpfs
// (`check selftest-fsnotify`). This is the one place where real, uncontrolled I/O is used: to calibrate a
// stub, not to decide a property.
package fscal

import (
	"fmt"
	"os"
	"path/filepath"
	"strings"
	"time"

	"github.com/fsnotify/fsnotify"

	"github.com/coredhcp/coredhcp/zzverif/simrt"
)

type op struct {
	name string
	real func(p string)
	sim  func(s *simrt.Sim, p string)
}

func collapse(evs []string) []string {
	var out []string
	for _, e := range evs {
		if len(out) == 0 || out[len(out)-1] != e {
			out = append(out, e)
		}
	}
	return out
}

// Run executes every scripted update once against the real library and once against the model, with the
// watch on the file (as coredhcp did) and on its directory (as it does now), and reports mismatches.
func Run() (lines []string, mismatches int) {
	ops := []op{
		{"truncate", func(p string) { f, _ := os.OpenFile(p, os.O_WRONLY|os.O_TRUNC, 0); f.Close() }, func(s *simrt.Sim, p string) { s.FSTruncate(p) }},
		{"append", func(p string) {
			f, _ := os.OpenFile(p, os.O_WRONLY|os.O_APPEND, 0)
			f.Write([]byte("x"))
			f.Close()
		}, func(s *simrt.Sim, p string) { s.FSAppend(p, []byte("x")) }},
		{"rewrite-in-place", func(p string) { os.WriteFile(p, []byte("new content\n"), 0o644) }, func(s *simrt.Sim, p string) { s.FSTruncate(p); s.FSAppend(p, []byte("new content\n")) }},
		{"chmod", func(p string) { os.Chmod(p, 0o600) }, func(s *simrt.Sim, p string) { s.FSChmod(p) }},
		{"rename-over", func(p string) { os.WriteFile(p+".tmp", []byte("new\n"), 0o644); os.Rename(p+".tmp", p) }, func(s *simrt.Sim, p string) { s.FSRenameOver(p, []byte("new\n")) }},
		{"unlink", func(p string) { os.Remove(p) }, func(s *simrt.Sim, p string) { s.FSUnlink(p) }},
		{"unlink+create", func(p string) { os.Remove(p); os.WriteFile(p, []byte("new\n"), 0o644) }, func(s *simrt.Sim, p string) { s.FSUnlink(p); s.FSCreateEvent(p, []byte("new\n")) }},
		{"move-away", func(p string) { os.Rename(p, p+".old") }, func(s *simrt.Sim, p string) { s.FSRenameAway(p, p+".old") }},
		{"move-away+create", func(p string) { os.Rename(p, p+".old"); os.WriteFile(p, []byte("new\n"), 0o644) }, func(s *simrt.Sim, p string) { s.FSRenameAway(p, p+".old"); s.FSCreateEvent(p, []byte("new\n")) }},
		{"rename-over,then-append", func(p string) {
			os.WriteFile(p+".tmp", []byte("new\n"), 0o644)
			os.Rename(p+".tmp", p)
			time.Sleep(20 * time.Millisecond)
			f, _ := os.OpenFile(p, os.O_WRONLY|os.O_APPEND, 0)
			f.Write([]byte("x"))
			f.Close()
		}, func(s *simrt.Sim, p string) { s.FSRenameOver(p, []byte("new\n")); s.FSAppend(p, []byte("x")) }},
	}
	for _, dirMode := range []bool{false, true} {
		for _, o := range ops {
			real, realWatches := runReal(o, dirMode)
			sim, simWatches := runSim(o, dirMode)
			ok := strings.Join(real, " ") == strings.Join(sim, " ") && realWatches == simWatches
			mode := "file-watch"
			if dirMode {
				mode = "dir-watch "
			}
			status := "ok      "
			if !ok {
				status = "MISMATCH"
				mismatches++
			}
			lines = append(lines, fmt.Sprintf("%s %s %-24s real=%v watches=%d | model=%v watches=%d", status, mode, o.name, real, realWatches, sim, simWatches))
		}
	}
	// queue overflow with nobody reading Errors (what plugins/file did): the watcher goes silent until the error is read
	ro, so := overflowReal(), overflowSim()
	status := "ok      "
	if ro != so {
		status = "MISMATCH"
		mismatches++
	}
	lines = append(lines, fmt.Sprintf("%s dir-watch  %-24s real=[%s] | model=[%s]", status, "queue-overflow", ro, so))
	return lines, mismatches
}

// overflowReal: 17000 files are created in a watched directory while nobody reads Events (the kernel queue holds
// fs.inotify.max_queued_events = 16384 by default), then the consumer starts. Reported: whether about a queue's worth
// of events arrives, how many events a later change produces while Errors is unread, the error, and how many events
// two changes (one made while silent, one after) produce once the error has been read.
func overflowReal() string {
	dir, err := os.MkdirTemp("/dev/shm", "verif-fscal-ovf-")
	if err != nil {
		return "ERR " + err.Error()
	}
	defer os.RemoveAll(dir)
	w, err := fsnotify.NewWatcher()
	if err != nil {
		return "ERR " + err.Error()
	}
	defer w.Close()
	if err := w.Add(dir); err != nil {
		return "ERR " + err.Error()
	}
	limit := 16384
	if b, err := os.ReadFile("/proc/sys/fs/inotify/max_queued_events"); err == nil {
		fmt.Sscanf(strings.TrimSpace(string(b)), "%d", &limit)
	}
	for i := 0; i < limit+600; i++ {
		f, _ := os.Create(filepath.Join(dir, fmt.Sprintf("f%d", i)))
		f.Close()
	}
	drain := func(d time.Duration) int {
		k := 0
		for {
			select {
			case <-w.Events:
				k++
				continue
			case <-time.After(d):
			}
			return k
		}
	}
	burst := drain(400 * time.Millisecond)
	os.WriteFile(filepath.Join(dir, "leases"), []byte("x"), 0o644)
	silent := drain(400 * time.Millisecond)
	errStr := "none"
	select {
	case e := <-w.Errors:
		errStr = e.Error()
	case <-time.After(400 * time.Millisecond):
	}
	os.WriteFile(filepath.Join(dir, "leases2"), []byte("x"), 0o644)
	after := drain(400 * time.Millisecond)
	return fmt.Sprintf("burst delivers about one queue=%v, while the error is unread=%d, error=%q, after reading it=%d", burst >= limit && burst < limit+600, silent, errStr, after)
}

func overflowSim() string {
	s := simrt.New(simrt.Config{}, simrt.ReplayTape(nil))
	defer s.Detach()
	s.InotifyQueueMax = 16
	dir := "/sim/dir"
	s.FSRegisterDir(dir)
	w, _ := simrt.NewWatcher()
	if err := w.Add(dir); err != nil {
		return "ERR " + err.Error()
	}
	for i := 0; i < 40; i++ {
		s.FSCreateEvent(fmt.Sprintf("%s/f%d", dir, i), nil)
	}
	burst, _ := w.DrainForCalibration(false)
	s.FSCreateEvent(dir+"/leases", []byte("x"))
	silent, _ := w.DrainForCalibration(false)
	errStr := "none"
	held, errs := w.DrainForCalibration(true) // reading the error releases the events that were held back
	if len(errs) > 0 {
		errStr = errs[0].Error()
	}
	s.FSCreateEvent(dir+"/leases2", []byte("x"))
	after, _ := w.DrainForCalibration(true)
	return fmt.Sprintf("burst delivers about one queue=%v, while the error is unread=%d, error=%q, after reading it=%d", burst >= 16 && burst < 40, silent, errStr, held+after)
}

func runReal(o op, dirMode bool) ([]string, int) {
	dir, err := os.MkdirTemp("/dev/shm", "verif-fscal-")
	if err != nil {
		return []string{"ERR " + err.Error()}, -1
	}
	defer os.RemoveAll(dir)
	p := filepath.Join(dir, "leases")
	os.WriteFile(p, []byte("abc\n"), 0o644)
	w, err := fsnotify.NewWatcher()
	if err != nil {
		return []string{"ERR " + err.Error()}, -1
	}
	defer w.Close()
	target := p
	if dirMode {
		target = dir
	}
	if err := w.Add(target); err != nil {
		return []string{"ERR " + err.Error()}, -1
	}
	o.real(p)
	var evs []string
	for {
		select {
		case e := <-w.Events:
			evs = append(evs, e.Op.String()+":"+filepath.Base(e.Name))
			continue
		case err := <-w.Errors:
			evs = append(evs, "ERR:"+err.Error())
			continue
		case <-time.After(150 * time.Millisecond):
		}
		break
	}
	return collapse(evs), len(w.WatchList())
}

func runSim(o op, dirMode bool) ([]string, int) {
	s := simrt.New(simrt.Config{}, simrt.ReplayTape(nil))
	defer s.Detach()
	dir := "/sim/dir"
	p := dir + "/leases"
	s.FSRegisterDir(dir)
	s.FSRegisterPath(p)
	s.FSCreate(p, []byte("abc\n"))
	w, _ := simrt.NewWatcher()
	target := p
	if dirMode {
		target = dir
	}
	if err := w.Add(target); err != nil {
		return []string{"ERR " + err.Error()}, -1
	}
	o.sim(s, p)
	var evs []string
	for _, e := range w.QueuedEvents() {
		evs = append(evs, e.Op.String()+":"+filepath.Base(e.Name))
	}
	return collapse(evs), len(w.WatchList())
}
