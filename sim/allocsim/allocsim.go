// Package allocsim drives the two real allocators (bitmap IPv4, bitmap IPv6
// prefix) through allocators.Allocator from 1..6 simulated caller tasks under
// the simrt scheduler and checks every history against a specification-level
// model over math/big block indices (independent of ipcalc, not mirroring
// first-fit). Properties C04..C07; see DESIGN.md §8.
package allocsim

import (
	"encoding/binary"
	"errors"
	"fmt"
	"math/big"
	"net"
	"sort"
	"strings"
	"time"

	"github.com/anishathalye/porcupine"

	"github.com/coredhcp/coredhcp/plugins/allocators"
	"github.com/coredhcp/coredhcp/plugins/allocators/bitmap"
	"github.com/coredhcp/coredhcp/zzverif/simrt"
)

// Pool describes one allocator configuration.
type Pool struct {
	V6      bool
	Start   net.IP // v4: first address; v6: pool base (16 bytes)
	End     net.IP // v4 only
	PoolLen int    // v6
	Alloc   int    // v6 allocation length
	N       int    // number of blocks
}

func (p Pool) String() string {
	if p.V6 {
		return fmt.Sprintf("v6 %s/%d alloc /%d (%d blocks)", p.Start, p.PoolLen, p.Alloc, p.N)
	}
	return fmt.Sprintf("v4 %s-%s (%d addrs)", p.Start, p.End, p.N)
}

// Op is one call in a history.
type Op struct {
	Caller    int
	Alloc     bool
	Hint      net.IPNet
	HintDesc  string
	HintBlock int // block the hint names (-1: none)
	WantLen   int // expected prefix length of a successful allocation
	FreeArg   net.IPNet
	FreeDesc  string
	FreeBlock int // block the freed prefix lies in (-1: outside the pool)
	// results
	OK           bool
	Ret          net.IPNet
	RetBlock     int
	RetSpan      int // number of blocks the returned prefix covers (1 unless it is larger than the allocation size)
	ErrStr       string
	ErrNoAvail   bool
	Call, Return int64
	Panic        string
}

func (o *Op) String() string {
	if o.Alloc {
		r := fmt.Sprintf("err(%s)", o.ErrStr)
		if o.OK {
			r = fmt.Sprintf("%s [block %d]", o.Ret.String(), o.RetBlock)
		}
		return fmt.Sprintf("c%d Allocate(%s hintBlock=%d) -> %s  @%d..%d", o.Caller, o.HintDesc, o.HintBlock, r, o.Call, o.Return)
	}
	r := "ok"
	if !o.OK {
		r = fmt.Sprintf("err(%s)", o.ErrStr)
	}
	return fmt.Sprintf("c%d Free(%s block=%d) -> %s  @%d..%d", o.Caller, o.FreeDesc, o.FreeBlock, r, o.Call, o.Return)
}

// Finding is a violation found in one history.
type Finding struct {
	Property string
	Class    string
	Detail   string
}

// Result of one history.
type Result struct {
	Seed       uint64
	Pool       Pool
	Callers    int
	Ops        []*Op
	Findings   []Finding
	Unknown    bool // porcupine timed out
	Switches   int64
	SwitchHash uint64
	StateHash  uint64
	Faults     [simrt.NumFaultKinds]int64
	Tape       []uint32
	Steps      int64
	Concurrent bool
	Probes     map[string]int64
}

var two = big.NewInt(2)

func ipToBig(ip net.IP) *big.Int { return new(big.Int).SetBytes(ip.To16()) }

// blockOf returns the index of the block containing addr, or -1 when outside the pool.
func (p Pool) blockOf(ip net.IP) int {
	if p.V6 {
		if len(ip) != 16 {
			return -1
		}
		a := ipToBig(ip)
		base := ipToBig(p.Start)
		if a.Cmp(base) < 0 {
			return -1
		}
		d := new(big.Int).Sub(a, base)
		d.Rsh(d, uint(128-p.Alloc))
		if !d.IsInt64() || d.Int64() >= int64(p.N) {
			return -1
		}
		return int(d.Int64())
	}
	v4 := ip.To4()
	if v4 == nil {
		return -1
	}
	a := int64(binary.BigEndian.Uint32(v4))
	s := int64(binary.BigEndian.Uint32(p.Start.To4()))
	e := int64(binary.BigEndian.Uint32(p.End.To4()))
	if a < s || a > e {
		return -1
	}
	return int(a - s)
}

// blockBase returns the base address of block i.
func (p Pool) blockBase(i int) net.IP {
	if p.V6 {
		b := ipToBig(p.Start)
		off := new(big.Int).Lsh(big.NewInt(int64(i)), uint(128-p.Alloc))
		b.Add(b, off)
		out := make(net.IP, 16)
		b.FillBytes(out)
		return out
	}
	out := make(net.IP, 4)
	binary.BigEndian.PutUint32(out, binary.BigEndian.Uint32(p.Start.To4())+uint32(i))
	return out
}

func drawPool(t *simrt.Tape) Pool {
	if t.Draw(2) == 0 {
		// IPv4
		sizes := []int{1, 2, 3, 5, 8, 63, 64, 65, 127, 128, 129, 200}
		var n int
		if t.Draw(3) == 0 {
			n = t.Range(1, 200)
		} else {
			n = sizes[t.Pick(len(sizes))]
		}
		var start uint32
		switch t.Draw(5) {
		case 0:
			start = 0x0a000001
		case 1:
			start = 0
		case 2:
			start = 0xffffffff - uint32(n-1) // range ends at 255.255.255.255
		case 3:
			start = 0xc0a801fa // 192.168.1.250: crosses a byte boundary quickly
		default:
			start = uint32(t.Draw(1<<31))*2 + uint32(t.Draw(2))
			if uint64(start)+uint64(n-1) > 0xffffffff {
				start = 0xffffffff - uint32(n-1)
			}
		}
		s := make(net.IP, 4)
		e := make(net.IP, 4)
		binary.BigEndian.PutUint32(s, start)
		binary.BigEndian.PutUint32(e, start+uint32(n-1))
		return Pool{Start: s, End: e, N: n}
	}
	k := t.Range(1, 10)
	var plen int
	switch t.Draw(4) {
	case 0:
		// straddle / sit next to the 64-bit boundary
		choices := [][2]int{{56, 64}, {64, 70}, {60, 68}, {48, 56}, {63, 65}, {62, 64}, {64, 65}, {54, 64}, {120, 128}, {118, 128}, {0, 4}, {1, 8}}
		c := choices[t.Pick(len(choices))]
		plen = c[0]
		k = c[1] - c[0]
	default:
		plen = t.Range(0, 128-k)
	}
	alloc := plen + k
	base := make(net.IP, 16)
	switch t.Draw(4) {
	case 0:
		// all zero
	case 1:
		for i := range base {
			base[i] = 0xff
		}
	case 2:
		copy(base, net.ParseIP("2001:db8::"))
		t.Bytes(base[4:])
	default:
		t.Bytes(base)
	}
	mask := net.CIDRMask(plen, 128)
	for i := range base {
		base[i] &= mask[i]
	}
	// pools overlapping the IPv4-mapped range ::ffff:0:0/96 are not generated (the prefix plugin's
	// users never configure them and net.IPNet.Contains treats such addresses as IPv4)
	v4m := net.ParseIP("::ffff:0:0")
	overl := true
	for i := 0; i < 16; i++ {
		if (base[i]^v4m[i])&mask[i] != 0 {
			overl = false
		}
	}
	if overl || (base.To4() != nil) {
		base[0] = 0x20
		base[1] = 0x01
		if plen < 16 {
			plen = 16
			alloc = plen + k
			if alloc > 128 {
				alloc = 128
				k = alloc - plen
			}
		}
		mask = net.CIDRMask(plen, 128)
		for i := range base {
			base[i] &= mask[i]
		}
	}
	return Pool{V6: true, Start: base, PoolLen: plen, Alloc: alloc, N: 1 << uint(k)}
}

func (p Pool) newAllocator() (allocators.Allocator, error) {
	if p.V6 {
		return bitmap.NewBitmapAllocator(net.IPNet{IP: p.Start, Mask: net.CIDRMask(p.PoolLen, 128)}, p.Alloc)
	}
	return bitmap.NewIPv4Allocator(p.Start, p.End)
}

func (p Pool) interestingBlock(t *simrt.Tape) int {
	switch t.Draw(5) {
	case 0:
		return 0
	case 1:
		return p.N - 1
	case 2:
		// word boundary blocks
		c := []int{63, 64, 65, 127, 128}
		b := c[t.Pick(len(c))]
		if b < p.N {
			return b
		}
		return p.N - 1
	default:
		return t.Pick(p.N)
	}
}

// drawHint fills op.Hint, HintBlock, WantLen for an Allocate.
func (p Pool) drawHint(t *simrt.Tape, op *Op, outsideOK bool) {
	op.HintBlock = -1
	op.WantLen = p.Alloc
	if !p.V6 {
		op.WantLen = 32
		switch t.Draw(6) {
		case 0:
			op.HintDesc = "none"
		case 1, 2:
			b := p.interestingBlock(t)
			ip := p.blockBase(b)
			op.HintBlock = b
			if t.Draw(2) == 1 {
				ip = ip.To16()
				op.HintDesc = fmt.Sprintf("16-byte %s", ip)
			} else {
				op.HintDesc = fmt.Sprintf("4-byte %s", ip)
			}
			op.Hint = net.IPNet{IP: ip}
			if t.Draw(2) == 1 {
				op.Hint.Mask = net.CIDRMask(t.Range(0, 32), 32)
				op.HintDesc += "/" + fmt.Sprint(op.Hint.Mask)
			}
		case 3:
			// outside the range
			s := binary.BigEndian.Uint32(p.Start.To4())
			e := binary.BigEndian.Uint32(p.End.To4())
			var a uint32
			if t.Draw(2) == 0 && s > 0 {
				a = s - 1 - uint32(t.Draw(4))%s
			} else if e < 0xffffffff {
				a = e + 1
			} else if s > 0 {
				a = s - 1
			} else {
				op.HintDesc = "none"
				return
			}
			ip := make(net.IP, 4)
			binary.BigEndian.PutUint32(ip, a)
			op.Hint = net.IPNet{IP: ip}
			op.HintDesc = "outside " + ip.String()
		case 4:
			ip := net.ParseIP("2001:db8::1")
			op.Hint = net.IPNet{IP: ip, Mask: net.CIDRMask(64, 128)}
			op.HintDesc = "ipv6 " + ip.String()
		default:
			// malformed lengths
			l := []int{1, 3, 5, 15, 17}[t.Pick(5)]
			ip := make(net.IP, l)
			t.Bytes(ip)
			op.Hint = net.IPNet{IP: ip}
			op.HintDesc = fmt.Sprintf("malformed len=%d", l)
		}
		return
	}
	// IPv6
	setMask := func() {
		switch t.Draw(5) {
		case 0:
			// no mask
		case 1, 2:
			l := t.Range(0, 128)
			op.Hint.Mask = net.CIDRMask(l, 128)
			if l > op.WantLen {
				op.WantLen = l
			}
			op.HintDesc += fmt.Sprintf(" /%d", l)
		case 3:
			l := t.Range(0, 32)
			op.Hint.Mask = net.CIDRMask(l, 32) // not a 128-bit mask: counts as no length
			op.HintDesc += fmt.Sprintf(" mask32/%d", l)
		default:
			// boundary lengths
			c := []int{p.Alloc - 1, p.Alloc, p.Alloc + 1, 128, 0, 64, 65}
			l := c[t.Pick(len(c))]
			if l < 0 {
				l = 0
			}
			if l > 128 {
				l = 128
			}
			op.Hint.Mask = net.CIDRMask(l, 128)
			if l > op.WantLen {
				op.WantLen = l
			}
			op.HintDesc += fmt.Sprintf(" /%d", l)
		}
	}
	switch t.Draw(6) {
	case 0:
		op.HintDesc = "none"
	case 1:
		op.HintDesc = "length-only"
		setMask()
	case 2, 3:
		b := p.interestingBlock(t)
		ip := p.blockBase(b)
		// anywhere inside the block
		if p.Alloc < 128 && t.Draw(2) == 1 {
			low := make(net.IP, 16)
			t.Bytes(low)
			m := net.CIDRMask(p.Alloc, 128)
			for i := range ip {
				ip[i] |= low[i] &^ m[i]
			}
		}
		op.HintBlock = b
		op.Hint.IP = ip
		op.HintDesc = "in-pool " + ip.String()
		setMask()
	case 4:
		if !outsideOK {
			op.HintDesc = "none"
			return
		}
		// outside the pool: below base or above end (when representable)
		base := ipToBig(p.Start)
		blk := new(big.Int).Lsh(big.NewInt(1), uint(128-p.Alloc))
		d := new(big.Int).Mul(blk, big.NewInt(int64(1+t.Pick(p.N+2))))
		var a *big.Int
		if t.Draw(2) == 0 {
			a = new(big.Int).Sub(base, d)
		} else {
			a = new(big.Int).Add(base, new(big.Int).Mul(blk, big.NewInt(int64(p.N+t.Pick(3)))))
		}
		max := new(big.Int).Lsh(big.NewInt(1), 128)
		if a.Sign() < 0 || a.Cmp(max) >= 0 {
			op.HintDesc = "none"
			return
		}
		ip := make(net.IP, 16)
		a.FillBytes(ip)
		if ip.To4() != nil {
			op.HintDesc = "none"
			return
		}
		op.Hint.IP = ip
		op.HintDesc = "outside " + ip.String()
		setMask()
	default:
		ip := net.IP{192, 0, 2, byte(t.Draw(256))}
		op.Hint.IP = ip
		op.HintDesc = "ipv4 " + ip.String()
	}
}

// drawFree fills FreeArg/FreeBlock. held: blocks this caller holds. strict: only outstanding blocks (C04/C05/C07 histories).
func (p Pool) drawFree(t *simrt.Tape, op *Op, held []int, everFreed []int, strict bool) bool {
	mkNet := func(ip net.IP, l int) net.IPNet {
		if p.V6 {
			return net.IPNet{IP: ip, Mask: net.CIDRMask(l, 128)}
		}
		if t.Draw(3) == 0 {
			return net.IPNet{IP: ip.To16(), Mask: net.CIDRMask(96+l, 128)}
		}
		return net.IPNet{IP: ip.To4(), Mask: net.CIDRMask(l, 32)}
	}
	full := p.Alloc
	if !p.V6 {
		full = 32
	}
	kind := 0
	if !strict {
		kind = int(t.Draw(7))
	}
	if !strict && !p.V6 && t.Draw(8) == 0 {
		// a genuine IPv6 prefix (not IPv4-mapped) whose low 32 bits are an address of the range: outside the pool
		a := binary.BigEndian.Uint32(p.Start.To4())
		if len(held) > 0 {
			a += uint32(held[t.Pick(len(held))])
		} else {
			a += uint32(t.Pick(p.N))
		}
		ip := net.ParseIP([]string{"64:ff9b::", "2001:db8::", "fe80::"}[t.Pick(3)])
		binary.BigEndian.PutUint32(ip[12:], a)
		op.FreeArg = net.IPNet{IP: ip, Mask: net.CIDRMask(128, 128)}
		op.FreeBlock = -1
		op.FreeDesc = "foreign-family " + op.FreeArg.String()
		return true
	}
	if kind <= 1 && len(held) == 0 {
		if strict {
			return false
		}
		kind = 2 + int(t.Draw(5))
	}
	switch kind {
	case 0, 1:
		b := held[t.Pick(len(held))]
		ip := p.blockBase(b)
		l := full
		if !strict && p.V6 && p.Alloc < 128 && kind == 1 {
			// a sub-prefix inside the outstanding block
			l = t.Range(p.Alloc, 128)
			low := make(net.IP, 16)
			t.Bytes(low)
			m := net.CIDRMask(p.Alloc, 128)
			for i := range ip {
				ip[i] |= low[i] &^ m[i]
			}
			op.FreeDesc = "sub-prefix of held "
		} else {
			op.FreeDesc = "held "
		}
		op.FreeArg = mkNet(ip, l)
		op.FreeBlock = b
	case 2:
		// some block of the pool, maybe never allocated
		b := p.interestingBlock(t)
		op.FreeArg = mkNet(p.blockBase(b), full)
		op.FreeBlock = b
		op.FreeDesc = "any-block "
	case 3:
		if len(everFreed) == 0 {
			b := p.interestingBlock(t)
			op.FreeArg = mkNet(p.blockBase(b), full)
			op.FreeBlock = b
			op.FreeDesc = "any-block "
			break
		}
		b := everFreed[t.Pick(len(everFreed))]
		op.FreeArg = mkNet(p.blockBase(b), full)
		op.FreeBlock = b
		op.FreeDesc = "previously-freed "
	case 4, 5:
		// below the pool base at distance d blocks (d = 1, 2, k, 2^j, or an outstanding block's index)
		var d int64
		switch t.Draw(5) {
		case 0:
			d = 1
		case 1:
			d = 2
		case 2:
			d = int64(1) << uint(t.Draw(11))
		case 3:
			if len(held) > 0 {
				d = int64(held[t.Pick(len(held))])
			} else {
				d = int64(t.Pick(p.N)) + 1
			}
		default:
			d = int64(t.Pick(p.N + 2))
		}
		if d == 0 {
			d = 1
		}
		op.FreeBlock = -1
		if p.V6 {
			base := ipToBig(p.Start)
			blk := new(big.Int).Lsh(big.NewInt(1), uint(128-p.Alloc))
			a := new(big.Int).Sub(base, new(big.Int).Mul(blk, big.NewInt(d)))
			if a.Sign() < 0 {
				return false
			}
			ip := make(net.IP, 16)
			a.FillBytes(ip)
			if ip.To4() != nil {
				return false
			}
			op.FreeArg = mkNet(ip, full)
		} else {
			s := int64(binary.BigEndian.Uint32(p.Start.To4()))
			if s-d < 0 {
				return false
			}
			ip := make(net.IP, 4)
			binary.BigEndian.PutUint32(ip, uint32(s-d))
			op.FreeArg = mkNet(ip, 32)
		}
		op.FreeDesc = fmt.Sprintf("below-base d=%d ", d)
	default:
		// above the pool end
		d := int64(t.Pick(p.N+2)) + int64(p.N)
		op.FreeBlock = -1
		if p.V6 {
			base := ipToBig(p.Start)
			blk := new(big.Int).Lsh(big.NewInt(1), uint(128-p.Alloc))
			a := new(big.Int).Add(base, new(big.Int).Mul(blk, big.NewInt(d)))
			if a.Cmp(new(big.Int).Lsh(big.NewInt(1), 128)) >= 0 {
				return false
			}
			ip := make(net.IP, 16)
			a.FillBytes(ip)
			if ip.To4() != nil {
				return false
			}
			op.FreeArg = mkNet(ip, full)
		} else {
			s := int64(binary.BigEndian.Uint32(p.Start.To4()))
			if s+d > 0xffffffff {
				return false
			}
			ip := make(net.IP, 4)
			binary.BigEndian.PutUint32(ip, uint32(s+d))
			op.FreeArg = mkNet(ip, 32)
		}
		op.FreeDesc = fmt.Sprintf("above-end d=%d ", d)
	}
	op.FreeDesc += op.FreeArg.String()
	return true
}

// ---------------------------------------------------------------------------
// model

type state struct {
	out map[int]bool
}

func (s state) key() string {
	ks := make([]int, 0, len(s.out))
	for k := range s.out {
		ks = append(ks, k)
	}
	sort.Ints(ks)
	var sb strings.Builder
	for _, k := range ks {
		fmt.Fprintf(&sb, "%d,", k)
	}
	return sb.String()
}

func (s state) with(b int) state {
	n := state{out: make(map[int]bool, len(s.out)+1)}
	for k := range s.out {
		n.out[k] = true
	}
	n.out[b] = true
	return n
}

func (s state) without(b int) state {
	n := state{out: make(map[int]bool, len(s.out))}
	for k := range s.out {
		if k != b {
			n.out[k] = true
		}
	}
	return n
}

// stepModel is the sequential specification. prop selects which clauses are enforced:
// C04 overlap only; C05 + exact capacity; C06 + Free exactness; C07 + hint honoured.
// It returns (legal, next state, reason when illegal).
func stepModel(prop string, n int, st state, op *Op) (bool, state, string) {
	if op.Alloc {
		if !op.OK {
			switch prop {
			case "C05":
				if len(st.out) < n {
					return false, st, fmt.Sprintf("Allocate failed (%s) with only %d of %d blocks outstanding", op.ErrStr, len(st.out), n)
				}
				if !op.ErrNoAvail {
					return false, st, fmt.Sprintf("Allocate on a full pool failed with %q instead of ErrNoAddrAvail", op.ErrStr)
				}
			case "C07":
				if op.HintBlock >= 0 && !st.out[op.HintBlock] {
					return false, st, fmt.Sprintf("hint named free block %d but Allocate failed (%s)", op.HintBlock, op.ErrStr)
				}
			}
			return true, st, ""
		}
		if st.out[op.RetBlock] {
			return false, st, fmt.Sprintf("Allocate returned block %d (%s) which is outstanding", op.RetBlock, op.Ret.String())
		}
		for b := op.RetBlock + 1; b < op.RetBlock+op.RetSpan && b < n; b++ {
			// the returned prefix is larger than one block: it also covers these neighbours
			if st.out[b] {
				return false, st, fmt.Sprintf("Allocate returned %s, which covers block %d that is outstanding", op.Ret.String(), b)
			}
		}
		if prop == "C07" && op.HintBlock >= 0 && !st.out[op.HintBlock] && op.RetBlock != op.HintBlock {
			return false, st, fmt.Sprintf("hint named free block %d but Allocate returned block %d", op.HintBlock, op.RetBlock)
		}
		nst := st.with(op.RetBlock)
		for b := op.RetBlock + 1; b < op.RetBlock+op.RetSpan && b < n; b++ {
			nst = nst.with(b)
		}
		return true, nst, ""
	}
	held := op.FreeBlock >= 0 && st.out[op.FreeBlock]
	if op.OK {
		if !held {
			if prop == "C06" {
				return false, st, fmt.Sprintf("Free(%s) succeeded although it lies in no outstanding block", op.FreeDesc)
			}
			return true, st, ""
		}
		return true, st.without(op.FreeBlock), ""
	}
	if held && prop == "C06" {
		return false, st, fmt.Sprintf("Free(%s) of outstanding block %d failed: %s", op.FreeDesc, op.FreeBlock, op.ErrStr)
	}
	if held {
		// a failed Free of an outstanding block leaves it outstanding
		return true, st, ""
	}
	return true, st, ""
}

// ---------------------------------------------------------------------------

// Options for one history.
type Options struct {
	Prop     string
	Seed     uint64
	Replay   []uint32
	KnownC06 bool // enable the Free-below-pool-base generator (known finding trigger)
	Trace    bool
}

// RunHistory executes one history and checks it.
func RunHistory(o Options) *Result {
	var tape *simrt.Tape
	if o.Replay != nil {
		tape = simrt.ReplayTape(o.Replay)
	} else {
		tape = simrt.NewTape(o.Seed)
	}
	res := &Result{Seed: o.Seed}
	pool := drawPool(tape)
	res.Pool = pool
	callers := 1
	if tape.Draw(3) != 0 {
		callers = tape.Range(2, 6)
	}
	res.Callers = callers
	cfg := simrt.Config{}
	switch tape.Draw(5) {
	case 0: // serial
	case 1:
		cfg.SyncPreempt = 4
	case 2:
		cfg.PreemptMean = 3
		cfg.SyncPreempt = 2
	case 3:
		cfg.PreemptMean = 10
		cfg.SyncPreempt = 1
	default:
		cfg.PreemptMean = 5
		cfg.SyncPreempt = 2
		cfg.PCT = true
	}
	strict := o.Prop != "C06"
	nops := tape.Range(2, 14)
	if callers == 1 {
		nops = tape.Range(3, 40)
	}
	// bias some histories towards exhaustion: many allocations on a small pool
	fillFirst := tape.Draw(3) == 0

	sim := simrt.New(cfg, tape)
	sim.TraceOn = o.Trace
	defer sim.Detach()
	alloc, err := pool.newAllocator()
	if err != nil {
		res.Findings = append(res.Findings, Finding{o.Prop, "constructor", fmt.Sprintf("allocator constructor failed for %s: %v", pool, err)})
		return res
	}
	perCaller := make([][]*Op, callers)
	for c := 0; c < callers; c++ {
		c := c
		sim.Spawn("caller", func() {
			var held []int
			var freed []int
			for i := 0; i < nops; i++ {
				op := &Op{Caller: c, HintBlock: -1, FreeBlock: -1, RetBlock: -1}
				t := sim.Tape
				doAlloc := fillFirst && i < pool.N+1 && i < nops-2
				if !doAlloc {
					doAlloc = t.Draw(3) != 0
				}
				if doAlloc {
					op.Alloc = true
					pool.drawHint(t, op, true)
				} else {
					if !pool.drawFree(t, op, held, freed, strict) {
						op.Alloc = true
						pool.drawHint(t, op, true)
					}
				}
				op.Call = simrt.NextSeq()
				func() {
					defer func() {
						if r := recover(); r != nil {
							op.Panic = fmt.Sprint(r)
						}
					}()
					if op.Alloc {
						ret, err := alloc.Allocate(op.Hint)
						if err == nil {
							op.OK = true
							op.Ret = ret
						} else {
							op.ErrStr = err.Error()
							op.ErrNoAvail = errors.Is(err, allocators.ErrNoAddrAvail)
						}
					} else {
						err := alloc.Free(op.FreeArg)
						if err == nil {
							op.OK = true
						} else {
							op.ErrStr = err.Error()
						}
					}
				}()
				op.Return = simrt.NextSeq()
				if op.Alloc && op.OK {
					op.RetSpan = 1
					if ones, bits := op.Ret.Mask.Size(); pool.V6 && bits == 128 && ones < pool.Alloc {
						if d := pool.Alloc - ones; d < 12 {
							op.RetSpan = 1 << uint(d)
						} else {
							op.RetSpan = pool.N
						}
					}
					op.RetBlock = pool.blockOf(op.Ret.IP)
					if op.RetBlock >= 0 {
						held = append(held, op.RetBlock)
					}
				}
				if !op.Alloc && op.OK && op.FreeBlock >= 0 {
					for j, h := range held {
						if h == op.FreeBlock {
							held = append(held[:j], held[j+1:]...)
							freed = append(freed, h)
							break
						}
					}
				}
				perCaller[c] = append(perCaller[c], op)
			}
		})
	}
	rr := sim.Run()
	res.Steps = sim.Steps
	res.Switches = sim.Switches
	res.SwitchHash = sim.SwitchHash()
	res.Faults = sim.FaultsFired
	for _, v := range sim.Verdicts {
		res.Findings = append(res.Findings, Finding{o.Prop, "runtime/" + v.Class, v.Detail})
	}
	if rr.Reason == "wedge" {
		res.Findings = append(res.Findings, Finding{o.Prop, "wedge", "callers blocked forever on the allocator lock"})
	}
	var all []*Op
	for _, l := range perCaller {
		all = append(all, l...)
	}
	sort.Slice(all, func(i, j int) bool { return all[i].Call < all[j].Call })
	res.Ops = all
	// concurrency present?
	for i := 1; i < len(all); i++ {
		if all[i].Call < all[i-1].Return {
			res.Concurrent = true
		}
	}
	res.check(o.Prop, pool)
	if len(res.Findings) == 0 && rr.Reason == "quiescent" {
		res.audit(o.Prop, pool, alloc)
	}
	res.Tape = tape.Rec
	return res
}

// shape checks on every successful allocation (C05).
func (res *Result) shape(prop string, p Pool, op *Op) {
	if op.Panic != "" {
		res.add(prop, "panic", fmt.Sprintf("%s panicked: %s", op, op.Panic))
		return
	}
	if !op.Alloc || !op.OK {
		return
	}
	fail := func(why string) {
		if prop == "C05" {
			res.add("C05", "shape", fmt.Sprintf("%s: %s (pool %s)", op, why, p))
		} else if op.RetBlock < 0 {
			// a result that is no block of the pool cannot be judged by the other models either
			res.add(prop, "shape-not-a-block", fmt.Sprintf("%s: %s (pool %s)", op, why, p))
		}
	}
	ones, bits := op.Ret.Mask.Size()
	if p.V6 {
		if len(op.Ret.IP) != 16 {
			fail("result is not a 16-byte address")
			return
		}
		if op.RetBlock < 0 {
			fail("result lies outside the pool")
			return
		}
		if !op.Ret.IP.Equal(p.blockBase(op.RetBlock)) {
			fail("result base is not aligned to the allocation length")
		}
		if bits != 128 || ones != op.WantLen {
			fail(fmt.Sprintf("result length /%d (of %d bits), want /%d", ones, bits, op.WantLen))
		}
		return
	}
	if op.RetBlock < 0 {
		fail("result lies outside [start,end]")
		return
	}
	if ones != 32 || bits != 32 {
		fail(fmt.Sprintf("result mask /%d of %d bits, want /32", ones, bits))
	}
}

func (res *Result) add(prop, class, detail string) {
	res.Findings = append(res.Findings, Finding{prop, class, detail})
}

type pinput struct{ op *Op }

func (res *Result) check(prop string, p Pool) {
	for _, op := range res.Ops {
		res.shape(prop, p, op)
	}
	if len(res.Findings) > 0 {
		return
	}
	if !res.Concurrent {
		st := state{out: map[int]bool{}}
		h := uint64(1469598103934665603)
		for _, op := range res.Ops {
			ok, nst, why := stepModel(prop, p.N, st, op)
			if !ok {
				res.add(prop, classOf(prop, op), fmt.Sprintf("%s: %s (pool %s)", op, why, p))
				return
			}
			st = nst
			for _, c := range []byte(st.key()) {
				h = (h ^ uint64(c)) * 1099511628211
			}
		}
		res.StateHash = h
		return
	}
	model := porcupine.Model{
		Init: func() interface{} { return state{out: map[int]bool{}} },
		Step: func(s, in, out interface{}) (bool, interface{}) {
			ok, n, _ := stepModel(prop, p.N, s.(state), in.(pinput).op)
			return ok, n
		},
		Equal: func(a, b interface{}) bool { return a.(state).key() == b.(state).key() },
	}
	var ops []porcupine.Operation
	for _, op := range res.Ops {
		ops = append(ops, porcupine.Operation{ClientId: op.Caller, Input: pinput{op}, Call: op.Call, Output: nil, Return: op.Return})
	}
	r := porcupine.CheckOperationsTimeout(model, ops, 30*time.Second)
	switch r {
	case porcupine.Illegal:
		res.add(prop, "not-linearizable", fmt.Sprintf("concurrent history of %d calls on %s has no sequential explanation under the %s model", len(ops), p, prop))
	case porcupine.Unknown:
		res.Unknown = true
	}
	h := uint64(1469598103934665603)
	for _, op := range res.Ops {
		h = (h ^ uint64(op.RetBlock+2) ^ uint64(op.Call)<<8) * 1099511628211
	}
	res.StateHash = h
}

func classOf(prop string, op *Op) string {
	if op.Alloc {
		if !op.OK {
			return "alloc-failed-not-full"
		}
		if prop == "C07" {
			return "hint-not-honoured"
		}
		return "overlap"
	}
	if op.OK {
		if strings.HasPrefix(op.FreeDesc, "below-base") {
			return "free-below-pool"
		}
		return "free-succeeded"
	}
	return "free-failed"
}

// audit runs after a clean history, sequentially, without the scheduler.
func (res *Result) audit(prop string, p Pool, alloc allocators.Allocator) {
	if res.Concurrent && prop == "C06" {
		// cross-caller frees make the final outstanding set order-dependent; the linearizability check has judged the history
		return
	}
	// outstanding set, order-independent: successful allocations minus successful frees per block
	cnt := map[int]int{}
	for _, op := range res.Ops {
		if op.Alloc && op.OK {
			cnt[op.RetBlock]++
		} else if !op.Alloc && op.OK && op.FreeBlock >= 0 {
			cnt[op.FreeBlock]--
		}
	}
	out := map[int]bool{}
	for b, c := range cnt {
		if c > 0 {
			out[b] = true
		}
	}
	full := p.Alloc
	if !p.V6 {
		full = 32
	}
	mk := func(b int) net.IPNet {
		if p.V6 {
			return net.IPNet{IP: p.blockBase(b), Mask: net.CIDRMask(full, 128)}
		}
		return net.IPNet{IP: p.blockBase(b), Mask: net.CIDRMask(32, 32)}
	}
	keys := make([]int, 0, len(out))
	for b := range out {
		keys = append(keys, b)
	}
	sort.Ints(keys)
	switch prop {
	case "C06":
		for _, b := range keys {
			if err := alloc.Free(mk(b)); err != nil {
				res.add("C06", "audit-free-failed", fmt.Sprintf("audit: Free of outstanding block %d failed: %v (pool %s)", b, err, p))
				return
			}
		}
		for _, b := range keys {
			if err := alloc.Free(mk(b)); err == nil {
				res.add("C06", "audit-double-free", fmt.Sprintf("audit: second Free of block %d succeeded (pool %s)", b, p))
				return
			}
		}
		// everything is free now: every block can be named by a hint again, exactly once
		for _, b := range keys {
			r, err := alloc.Allocate(net.IPNet{IP: p.blockBase(b)})
			if err != nil || p.blockOf(r.IP) != b {
				res.add("C06", "audit-realloc", fmt.Sprintf("audit: freed block %d cannot be re-allocated by hint (got %v, %v) (pool %s)", b, r, err, p))
				return
			}
		}
	case "C04", "C05", "C07":
		// allocate until failure: exactly N-|out| successes, all distinct and not outstanding
		seen := map[int]bool{}
		want := p.N - len(out)
		got := 0
		for i := 0; i < p.N+2; i++ {
			var hint net.IPNet
			if prop == "C07" {
				// name the lowest free block: it must be honoured
				for b := 0; b < p.N; b++ {
					if !out[b] && !seen[b] {
						hint = net.IPNet{IP: p.blockBase(b)}
						break
					}
				}
			}
			r, err := alloc.Allocate(hint)
			if err != nil {
				if prop == "C05" && !errors.Is(err, allocators.ErrNoAddrAvail) {
					res.add("C05", "audit-error-kind", fmt.Sprintf("audit: exhausted pool reports %v, want ErrNoAddrAvail", err))
				}
				break
			}
			b := p.blockOf(r.IP)
			if b < 0 {
				res.add(prop, "audit-shape", fmt.Sprintf("audit: Allocate returned %s outside the pool %s", r.String(), p))
				return
			}
			if out[b] || seen[b] {
				if prop != "C05" {
					res.add(prop, "audit-overlap", fmt.Sprintf("audit: Allocate returned block %d (%s) which is outstanding (pool %s)", b, r.String(), p))
				}
				return
			}
			if prop == "C07" && hint.IP != nil && p.blockOf(hint.IP) != b {
				res.add("C07", "audit-hint", fmt.Sprintf("audit: hint named free block %d, got block %d (pool %s)", p.blockOf(hint.IP), b, p))
				return
			}
			seen[b] = true
			got++
		}
		if prop == "C05" && got != want {
			res.add("C05", "audit-capacity", fmt.Sprintf("audit: %d further allocations succeeded, want exactly %d (N=%d, outstanding=%d) (pool %s)", got, want, p.N, len(out), p))
		}
	}
}
