package allocsim

import (
	"github.com/coredhcp/coredhcp/zzverif/report"
	"github.com/coredhcp/coredhcp/zzverif/simrt"
)

// Summarise renders a result; full includes the operations and tape.
func Summarise(r *Result, prop string, full bool, known bool) report.Run {
	s := report.Run{Seed: r.Seed, Engine: "allocsim", Property: prop, Desc: r.Pool.String(), Unknown: r.Unknown,
		Steps: r.Steps, Switches: r.Switches, SwitchHash: r.SwitchHash, StateHash: r.StateHash, Known: known}
	s.NonTrivial = len(r.Ops) >= 2
	for _, f := range r.Findings {
		s.Findings = append(s.Findings, report.Finding{Property: f.Property, Class: f.Class, Detail: f.Detail})
	}
	s.Faults = map[string]int64{}
	for i, n := range r.Faults {
		if n > 0 {
			s.Faults[simrt.FaultNames[i]] = n
		}
	}
	s.Probes = map[string]int64{}
	var exhausted, hintTaken, hintHonoured, freeOK, freeBad, wordB, conc int64
	for _, op := range r.Ops {
		if op.Alloc && !op.OK && op.ErrNoAvail {
			exhausted++
		}
		if op.Alloc && op.OK && op.HintBlock >= 0 {
			if op.RetBlock == op.HintBlock {
				hintHonoured++
			} else {
				hintTaken++
			}
		}
		if !op.Alloc && op.OK {
			freeOK++
		}
		if !op.Alloc && !op.OK {
			freeBad++
		}
		if op.Alloc && op.OK && (op.RetBlock == 63 || op.RetBlock == 64 || op.RetBlock == 65) {
			wordB++
		}
	}
	if r.Concurrent {
		conc = 1
	}
	put := func(k string, v int64) {
		if v > 0 {
			s.Probes[k] = v
		}
	}
	put("alloc.exhausted", exhausted)
	put("alloc.hint_taken_elsewhere", hintTaken)
	put("alloc.hint_honoured", hintHonoured)
	put("free.ok", freeOK)
	put("free.rejected", freeBad)
	put("alloc.word_boundary_block", wordB)
	put("history.concurrent", conc)
	if r.Pool.V6 {
		put("pool.v6", 1)
		if r.Pool.PoolLen < 64 && r.Pool.Alloc > 64 {
			put("pool.straddles_bit64", 1)
		}
	} else {
		put("pool.v4", 1)
	}
	if len(r.Findings) > 0 || full {
		for _, op := range r.Ops {
			s.Sample = append(s.Sample, op.String())
		}
		s.Tape = r.Tape
	}
	return s
}
