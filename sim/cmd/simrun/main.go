// simrun executes simulated runs. One process = a batch of allocsim histories,
// or one netsim run (one server lifetime incl. in-process restarts).
package main

import (
	"encoding/json"
	"flag"
	"fmt"
	"os"

	"github.com/coredhcp/coredhcp/zzverif/allocsim"
	"github.com/coredhcp/coredhcp/zzverif/fscal"
	"github.com/coredhcp/coredhcp/zzverif/netsim"
	"github.com/coredhcp/coredhcp/zzverif/report"
	"github.com/coredhcp/coredhcp/zzverif/simrt"
)

func main() {
	engine := flag.String("engine", "allocsim", "allocsim | netsim")
	prop := flag.String("prop", "C04", "property id")
	seed := flag.Uint64("seed", 1, "master seed")
	first := flag.Int("first", 0, "first run index")
	runs := flag.Int("runs", 1, "number of runs in this process")
	replay := flag.String("replay", "", "replay file (JSON with a tape)")
	known := flag.Bool("known", false, "enable known-finding trigger generators")
	trace := flag.Bool("trace", false, "record a full trace")
	scenario := flag.String("scenario", "", "netsim scenario preset")
	full := flag.Bool("full", false, "include sample and tape in every summary")
	flag.Parse()
	enc := json.NewEncoder(os.Stdout)
	switch *engine {
	case "allocsim":
		if *replay != "" {
			var rf report.ReplayFile
			b, err := os.ReadFile(*replay)
			if err != nil {
				fmt.Fprintln(os.Stderr, err)
				os.Exit(2)
			}
			if err := json.Unmarshal(b, &rf); err != nil {
				fmt.Fprintln(os.Stderr, err)
				os.Exit(2)
			}
			kn := *known || rf.Known
			r := allocsim.RunHistory(allocsim.Options{Prop: rf.Property, Seed: rf.Seed, Replay: rf.Tape, KnownC06: kn, Trace: *trace})
			enc.Encode(allocsim.Summarise(r, rf.Property, true, kn))
			return
		}
		for i := *first; i < *first+*runs; i++ {
			s := simrt.Mix(*seed, uint64(i), 0xa110c)
			r := allocsim.RunHistory(allocsim.Options{Prop: *prop, Seed: s, KnownC06: *known, Trace: *trace})
			sum := allocsim.Summarise(r, *prop, *full, *known)
			sum.Index = i
			enc.Encode(sum)
		}
	case "fscal":
		lines, bad := fscal.Run()
		for _, l := range lines {
			fmt.Println(l)
		}
		if bad > 0 {
			os.Exit(1)
		}
	case "netsim":
		if *replay != "" {
			var rf report.ReplayFile
			b, err := os.ReadFile(*replay)
			if err != nil {
				fmt.Fprintln(os.Stderr, err)
				os.Exit(2)
			}
			if err := json.Unmarshal(b, &rf); err != nil {
				fmt.Fprintln(os.Stderr, err)
				os.Exit(2)
			}
			r := netsim.Run(netsim.Options{Prop: rf.Property, Scenario: rf.Scenario, Seed: rf.Seed, Replay: rf.Tape, Known: *known || rf.Known, Trace: *trace, Full: true})
			enc.Encode(r)
			return
		}
		if *runs != 1 {
			fmt.Fprintln(os.Stderr, "netsim executes one run per process (plugins keep package-level state)")
			os.Exit(2)
		}
		s := simrt.Mix(*seed, uint64(*first), 0x4e75)
		r := netsim.Run(netsim.Options{Prop: *prop, Scenario: *scenario, Seed: s, Known: *known, Trace: *trace, Full: *full})
		r.Index = *first
		enc.Encode(r)
	default:
		fmt.Fprintln(os.Stderr, "unknown engine", *engine)
		os.Exit(2)
	}
}
