package simrt

import "time"

// Now replaces time.Now: the simulated wall clock (no monotonic reading; the
// simulated clock only moves forward, so wall-clock comparison is equivalent).
//
//go:norace
func Now() time.Time {
	s := S
	if s == nil {
		return time.Now()
	}
	if t := s.cur; t != nil {
		Probe(PClockRead)
		s.noteClockRead(t)
	}
	return time.Unix(0, s.Cfg.EpochNs+s.now).UTC()
}

//go:norace
func (s *Sim) WallNow() time.Time { return time.Unix(0, s.Cfg.EpochNs+s.now).UTC() }

//go:norace
func Since(t time.Time) time.Duration { return Now().Sub(t) }

//go:norace
func Until(t time.Time) time.Duration { return t.Sub(Now()) }

// Sleep replaces time.Sleep: parks the task until the simulated clock reaches the wake time.
//
//go:norace
func Sleep(d time.Duration) {
	s := S
	if s == nil || s.cur == nil {
		time.Sleep(d)
		return
	}
	if d <= 0 {
		syncPoint(s, -1)
		return
	}
	t := s.cur
	t.WakeAt = s.now + int64(d)
	t.State = StSleeping
	Probe(PSleep)
	s.toSched(t)
}

// ClockRead records the first clock read of each task (used by C03's expiry oracle).
type ClockRead struct {
	Task int
	Tag  int64
	Now  int64
}

var clockReads []ClockRead

//go:norace
func (s *Sim) noteClockRead(t *Task) {
	clockReads = append(clockReads, ClockRead{Task: t.ID, Tag: t.Tag, Now: s.now})
}

// TakeClockReads returns and clears the clock reads logged so far (scheduler context).
//
//go:norace
func (s *Sim) TakeClockReads() []ClockRead {
	r := clockReads
	clockReads = nil
	return r
}
