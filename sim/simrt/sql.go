package simrt

import (
	"database/sql"
	"database/sql/driver"
	"sync"

	sqlite3 "github.com/mattn/go-sqlite3"
)

// SQLOpen replaces sql.Open in instrumented code. Under simulation the real
// sqlite driver is wrapped so that (a) single driver calls can be made to fail
// on command (SQLITE_FULL / BUSY / IOERR) and (b) a simulated process crash can
// release everything the dead incarnation held on the database file, as
// process death would.
//
//go:norace
func SQLOpen(driverName, dsn string) (*sql.DB, error) {
	s := S
	if s == nil || driverName != "sqlite3" {
		return sql.Open(driverName, dsn)
	}
	registerOnce.Do(registerSimDriver)
	db, err := sql.Open("sqlite3-sim", dsn)
	if err != nil {
		return db, err
	}
	inc := s.Inc
	if s.cur != nil {
		inc = s.cur.Inc
	}
	s.dbs = append(s.dbs, &trackedDB{db: db, inc: inc})
	return db, nil
}

var registerOnce sync.Once

//go:norace
func registerSimDriver() {
	sql.Register("sqlite3-sim", &simDriver{real: &sqlite3.SQLiteDriver{}})
}

type trackedDB struct {
	db  *sql.DB
	inc int
}

type simDriver struct{ real driver.Driver }

type simConn struct {
	real   driver.Conn
	inc    int
	stmts  []*simStmt
	closed bool
}

type simStmt struct {
	real   driver.Stmt
	conn   *simConn
	rows   []*simRows
	closed bool
}

type simRows struct {
	real   driver.Rows
	closed bool
}

var simConns []*simConn

// SQL fault kinds.
const (
	SQLFull = iota
	SQLBusy
	SQLIOErr
)

//go:norace
func sqlFault() error {
	s := S
	if s == nil || s.sqlFaultIn <= 0 || s.cur == nil {
		// faults hit the server's own calls only, never the harness's probes (scheduler context)
		return nil
	}
	s.sqlFaultIn--
	if s.sqlFaultIn > 0 {
		return nil
	}
	s.FaultsFired[FSQLFail]++
	s.SQLFaults++
	s.SQLFaultTags = append(s.SQLFaultTags, CurTag())
	s.SQLEvents = append(s.SQLEvents, SQLEvent{Tag: CurTag()})
	if s.cur != nil {
		s.Tracef("sqlfault", s.cur.ID, "kind=%d", s.sqlFaultKind)
	}
	switch s.sqlFaultKind {
	case SQLBusy:
		return sqlite3.Error{Code: sqlite3.ErrBusy}
	case SQLIOErr:
		return sqlite3.Error{Code: sqlite3.ErrIoErr}
	}
	return sqlite3.Error{Code: sqlite3.ErrFull}
}

// ArmSQLFault makes the n-th driver call from now fail (scheduler context).
//
//go:norace
func (s *Sim) ArmSQLFault(n int64, kind int) {
	s.sqlFaultIn = n
	s.sqlFaultKind = kind
}

//go:norace
func (s *Sim) SQLFaultArmed() bool { return s.sqlFaultIn > 0 }

//go:norace
func (d *simDriver) Open(name string) (driver.Conn, error) {
	c, err := d.real.Open(name)
	if err != nil {
		return nil, err
	}
	inc := 0
	if s := S; s != nil {
		inc = s.Inc
		if s.cur != nil {
			inc = s.cur.Inc
		}
	}
	sc := &simConn{real: c, inc: inc}
	simConns = append(simConns, sc)
	return sc, nil
}

//go:norace
func (c *simConn) Prepare(query string) (driver.Stmt, error) {
	if err := sqlFault(); err != nil {
		return nil, err
	}
	st, err := c.real.Prepare(query)
	if err != nil {
		return nil, err
	}
	ss := &simStmt{real: st, conn: c}
	c.stmts = append(c.stmts, ss)
	return ss, nil
}

//go:norace
func (c *simConn) Close() error {
	if c.closed {
		return nil
	}
	c.closed = true
	return c.real.Close()
}

//go:norace
func (c *simConn) Begin() (driver.Tx, error) { return c.real.Begin() }

//go:norace
func (st *simStmt) Close() error {
	if st.closed {
		return nil
	}
	st.closed = true
	return st.real.Close()
}

//go:norace
func (st *simStmt) NumInput() int { return st.real.NumInput() }

//go:norace
func (st *simStmt) Exec(args []driver.Value) (driver.Result, error) {
	if err := sqlFault(); err != nil {
		return nil, err
	}
	Probe(PSQLExec)
	r, err := st.real.Exec(args)
	if s := S; s != nil && s.cur != nil {
		// the outcome of every statement the server executed, in order (the sql-fault oracle needs to know when a
		// later store call of the same client went through)
		s.SQLEvents = append(s.SQLEvents, SQLEvent{Tag: CurTag(), OK: err == nil})
	}
	return r, err
}

//go:norace
func (st *simStmt) Query(args []driver.Value) (driver.Rows, error) {
	if err := sqlFault(); err != nil {
		return nil, err
	}
	r, err := st.real.Query(args)
	if err != nil {
		return nil, err
	}
	sr := &simRows{real: r}
	st.rows = append(st.rows, sr)
	return sr, nil
}

//go:norace
func (r *simRows) Columns() []string { return r.real.Columns() }

//go:norace
func (r *simRows) Close() error {
	if r.closed {
		return nil
	}
	r.closed = true
	return r.real.Close()
}

//go:norace
func (r *simRows) Next(dest []driver.Value) error { return r.real.Next(dest) }

// closeDBs releases everything incarnation inc held on its databases (a dead process holds nothing).
//
//go:norace
func (s *Sim) closeDBs(inc int) {
	for _, c := range simConns {
		if c.inc != inc || c.closed {
			continue
		}
		for _, st := range c.stmts {
			for _, r := range st.rows {
				r.Close()
			}
			st.Close()
		}
		c.Close()
	}
}

// CloseAllDBs closes every tracked connection (end of run).
//
//go:norace
func (s *Sim) CloseAllDBs() {
	for _, c := range simConns {
		if c.closed {
			continue
		}
		for _, st := range c.stmts {
			for _, r := range st.rows {
				r.Close()
			}
			st.Close()
		}
		c.Close()
	}
}
