package simrt

// Tape is the single source of randomness of a run. In record mode every draw
// comes from a xoshiro256** generator seeded from the run seed and is appended
// to the tape; in replay mode draws are read back (0 once the tape is
// exhausted), which is what makes a run a pure function of its tape and lets
// the minimiser shrink a failing run by editing the tape. Every decision is
// encoded so that 0 is the simplest choice (no fault, keep running the same
// task, fewest actors).
type Tape struct {
	s         [4]uint64
	Rec       []uint32
	replay    []uint32
	pos       int
	Replaying bool
	Overrun   int // draws past the end of a replay tape
}

//go:norace
func splitmix(x *uint64) uint64 {
	*x += 0x9e3779b97f4a7c15
	z := *x
	z = (z ^ (z >> 30)) * 0xbf58476d1ce4e5b9
	z = (z ^ (z >> 27)) * 0x94d049bb133111eb
	return z ^ (z >> 31)
}

// Mix derives a sub-seed (splitmix64 over the parts).
//
//go:norace
func Mix(parts ...uint64) uint64 {
	var x uint64 = 0x243f6a8885a308d3
	for _, p := range parts {
		x ^= p
		splitmix(&x)
		x = splitmix(&x)
	}
	return x
}

//go:norace
func NewTape(seed uint64) *Tape {
	t := &Tape{}
	x := seed
	for i := range t.s {
		t.s[i] = splitmix(&x)
	}
	return t
}

//go:norace
func ReplayTape(rec []uint32) *Tape {
	return &Tape{replay: rec, Replaying: true}
}

//go:norace
func rotl(x uint64, k uint) uint64 { return (x << k) | (x >> (64 - k)) }

//go:norace
func (t *Tape) next() uint64 {
	r := rotl(t.s[1]*5, 7) * 9
	x := t.s[1] << 17
	t.s[2] ^= t.s[0]
	t.s[3] ^= t.s[1]
	t.s[1] ^= t.s[2]
	t.s[0] ^= t.s[3]
	t.s[2] ^= x
	t.s[3] = rotl(t.s[3], 45)
	return r
}

// Draw returns a value in [0,n). n<=1 draws nothing.
//
//go:norace
func (t *Tape) Draw(n uint32) uint32 {
	if n <= 1 {
		return 0
	}
	var v uint32
	if t.Replaying {
		if t.pos < len(t.replay) {
			v = t.replay[t.pos] % n
		} else {
			t.Overrun++
		}
		t.pos++
	} else {
		v = uint32(t.next()>>32) % n
	}
	t.Rec = append(t.Rec, v)
	return v
}

// Chance is true with probability num/den; 0 on the tape means false.
//
//go:norace
func (t *Tape) Chance(num, den uint32) bool {
	if num == 0 {
		return false
	}
	if num >= den {
		return true
	}
	return t.Draw(den) >= den-num
}

// Range draws an integer in [lo,hi].
//
//go:norace
func (t *Tape) Range(lo, hi int) int {
	if hi <= lo {
		return lo
	}
	return lo + int(t.Draw(uint32(hi-lo+1)))
}

// Pick draws an index into a list of n items.
//
//go:norace
func (t *Tape) Pick(n int) int {
	if n <= 1 {
		return 0
	}
	return int(t.Draw(uint32(n)))
}

// Bytes fills b from the tape.
//
//go:norace
func (t *Tape) Bytes(b []byte) {
	for i := range b {
		b[i] = byte(t.Draw(256))
	}
}

//go:norace
func (t *Tape) Pos() int { return len(t.Rec) }
