// Package simrt is the deterministic simulation runtime that instrumented
// coredhcp code runs on: a cooperative scheduler that decides which task
// (goroutine of the system under test) runs, a discrete-event clock, a tape of
// every random draw (record / replay / shrink), and shims for sync, time, os,
// fsnotify, database/sql, syscall and net that simbuild splices into the code.
//
// Concurrency discipline (see DESIGN.md §2.2):
//   - exactly one of {scheduler goroutine, one task} runs at any instant; the
//     baton is passed over pipes with bare read/write syscalls, which carry no
//     race-detector annotation, so the detector still reports two accesses that
//     the *program under test* did not order, even in a serial schedule;
//   - every function in this package is //go:norace (enforced by simbuild):
//     the runtime's own bookkeeping is invisible to the detector;
//   - shared runtime state uses slices and structs only (no maps, no channels,
//     no sync) because those carry runtime race annotations.
//
// When no simulation is attached (S == nil) every shim delegates to the real
// package: that is how the repository's own tests run on the instrumented copy.
package simrt

import (
	"fmt"
	"os"
	"runtime"
	"runtime/debug"
	"strings"
	"sync/atomic"
	"syscall"
	"time"
	"unsafe"
)

// TaskState is the scheduling state of a task.
type TaskState int32

const (
	StRunnable TaskState = iota
	StRunning
	StBlockedLock
	StBlockedChan
	StBlockedNet
	StBlockedWG
	StSleeping
	StDone
	StAbandoned
)

var stateNames = [...]string{"runnable", "running", "blocked-lock", "blocked-chan", "blocked-net", "blocked-wg", "sleeping", "done", "abandoned"}

//go:norace
func (s TaskState) String() string { return stateNames[s] }

// Task is one goroutine of the system under test.
type Task struct {
	ID       int
	Kind     string
	Inc      int // server incarnation the task belongs to
	Parent   int
	State    TaskState
	rfd, wfd int
	waitObj  unsafe.Pointer
	WakeAt   int64
	Yields   int64
	LastSite int32
	Tag      int64          // the datagram this task is currently working for (caller id in allocsim); see tags.go
	jobChan  unsafe.Pointer // channel from which the task last received work for a datagram (worker loops)
	fairMark int64          // Yields at the last fairness preemption
	lastRun  int64          // global step at which the task last got the baton
	Panic    string
	Stack    string
	Writes   int // datagrams written by this task
	prio     int64
	fn       func()
	// rel carries a happens-before edge task -> scheduler at every baton
	// hand-back (Store = release, Load = acquire), so the scheduler-side world
	// may read what a task wrote. There is no edge in the other direction
	// (resume passes no edge), so tasks are never ordered through the scheduler.
	rel atomic.Int32
}

// Capture is one datagram (or raw frame) the server sent.
type Capture struct {
	Task     int
	Inc      int
	Datagram int64 // attributed request (Tag of the writing task)
	Port     int
	L2       bool
	Bytes    []byte
	DstIP    []byte
	DstPort  int
	DstZone  string
	HasCM    bool // a control message was passed
	IfIndex  int  // control message IfIndex / sockaddr Ifindex
	DstMAC   []byte
	Step     int64
	Now      int64
	V6       bool
}

// Datagram is one datagram waiting on a simulated listener.
type Datagram struct {
	ID      int64
	Bytes   []byte
	SrcIP   []byte
	SrcPort int
	SrcZone string
	IfIndex int // receiving interface; reaches the server in a control message only if the socket asked for one
	DstIP   []byte
}

type port struct {
	id     int
	v6     bool
	inc    int
	closed bool
	inbox  []Datagram
	reads  int
	// the socket as the server configured it (NewIPv4UDPConn/NewIPv6UDPConn, SetControlMessage, JoinGroup)
	zone    string
	bindIf  int
	ip      []byte
	portNum int
	cflags  int // ControlFlags enabled through SetControlMessage
	groups  []GroupJoin
}

// SQLEvent is one driver call made on behalf of a datagram: an injected failure (OK false) or an executed statement.
type SQLEvent struct {
	Tag int64
	OK  bool
}

// GroupJoin is one multicast membership requested on a socket.
type GroupJoin struct {
	IfIndex int
	Group   []byte
}

// PortInfo describes a simulated socket to the world (scheduler context).
type PortInfo struct {
	ID      int
	V6      bool
	Inc     int
	Closed  bool
	Zone    string
	BindIf  int
	IP      []byte
	Port    int
	CFlags  int
	Groups  []GroupJoin
	Backlog int
}

type event struct {
	at  int64
	seq uint64
	fn  func()
}

// Hooks are the world's callbacks; all run on the scheduler goroutine.
type Hooks struct {
	OnCapture  func(c *Capture)
	OnTaskEnd  func(t *Task)
	OnTagDone  func(tag int64) // no task and no queued message works for this datagram any more
	OnTaskPark func(t *Task)   // optional; called when a task blocks/yields to the scheduler
}

// Config selects scheduler behaviour for one run.
type Config struct {
	PreemptMean   int   // mean yields between preemptions; 0 = never preempt at plain yields
	SyncPreempt   int   // at sync points preempt with probability SyncPreempt/8
	TimeSkip      int   // with probability TimeSkip/8 fire the next future event while tasks are runnable
	MaxTimeSkipNs int64 // cap on a single skip
	MaxTaskYields int64 // per task (non-termination bound)
	MaxSteps      int64 // global
	EpochNs       int64
	PCT           bool // priority-based scheduling (run highest priority; priorities change at preemption points)
}

// Sim is one simulation.
type Sim struct {
	Cfg               Config
	Tape              *Tape
	tasks             []*Task
	cur               *Task
	ctlR, ctlW        int
	now               int64
	Steps             int64
	preemptIn         int64
	events            []event
	evSeq             uint64
	ports             []*port
	outbox            []*Capture
	ended             []*Task
	Inc               int
	Hooks             Hooks
	stop              bool
	StopReason        string
	Verdicts          []Verdict
	ifaces            []Iface
	pipePool          [][2]int
	trace             []TraceRec
	TraceOn           bool
	switches          uint64 // hash of context-switch sequence while >=2 runnable
	Switches          int64
	crashAt           int64 // global step at which to crash (0 = none)
	crashSites        []bool
	crashFn           func(t *Task)
	stallAt           int64
	stallNs           int64
	stallSites        []bool
	Probes            []int64
	files             []*simFile
	watchers          []*Watcher
	sqlFaultIn        int64 // countdown of sql driver calls until an injected failure; 0 = none
	sqlFaultKind      int
	SQLFaults         int64
	SQLFaultTags      []int64 // datagrams whose handler saw an injected sql failure
	SQLEvents         []SQLEvent
	dbs               []*trackedDB
	FaultsFired       [NumFaultKinds]int64
	poolReuse         int // 0: fifo fresh (no reuse), 1: PRNG choice, 2: always reuse most recent
	poolKeepStale     bool
	fakeFD            int
	sockFailIn        int
	tagRefs           []int32
	fairPick          bool
	doneTags          []int64
	l2socks           []l2sock
	ReadFileLog       []ReadFileRec
	readFileErrIn     int
	TimeSkipped       int64
	simPaths          []string
	simDirs           []string
	KeepMtime         bool // operator replaces files preserving their modification time
	timerOnlyAdvances int
	userLog           []UserRec
	InotifyQueueMax   int
	handlerBusyNs     int64
}

// TraceRec is one recorded scheduling / world event (for replay files and samples).
type TraceRec struct {
	Step int64
	Now  int64
	Kind string
	Task int
	Info string
}

// Verdict is a property violation (or note) found during the run.
type Verdict struct {
	Property string
	Class    string
	Detail   string
	Step     int64
}

// S is the attached simulation; nil = passthrough.
var S *Sim

// FaultKind enumerates injected fault kinds (counted when they fire).
const (
	FDrop = iota
	FDup
	FDelay
	FCorrupt
	FReplayOld
	FPreempt
	FStall
	FClockJump
	FCrash
	FCrashSetup
	FSQLFail
	FFileTorn
	FFileRename
	FFileUnlink
	FEvCoalesce
	FEvOverflow
	FReadFileErr
	FBufReuse
	FMapOrder
	FSetupFail
	FBadArgs
	FTimeSkip
	FSockErr
	FSockClose
	NumFaultKinds
)

var FaultNames = [NumFaultKinds]string{"datagram_drop", "datagram_dup", "datagram_delay_reorder", "datagram_corrupt", "datagram_replay_old",
	"preemption", "task_stall", "clock_jump", "crash_restart", "crash_in_setup", "sql_call_fail", "file_torn_rewrite", "file_rename_over",
	"file_unlink_recreate", "inotify_coalesce", "inotify_overflow", "readfile_error", "buffer_reuse", "map_order_shuffle",
	"plugin_setup_failure", "invalid_plugin_args", "time_passes_while_handler_in_flight", "socket_open_error", "socket_closed_under_server"}

//go:norace
func pipe2() (int, int) {
	var p [2]int
	if err := syscall.Pipe2(p[:], syscall.O_CLOEXEC); err != nil {
		fatalf("simrt: pipe2: %v", err)
	}
	return p[0], p[1]
}

//go:norace
func fatalf(format string, a ...interface{}) {
	fmt.Fprintf(os.Stderr, "SIMRT-FATAL "+format+"\n", a...)
	os.Exit(2)
}

// blockRead blocks the calling goroutine in a bare read(2): no race-detector
// happens-before edge, but the Go scheduler is told (entersyscall), so the P
// is released.
//
//go:norace
func blockRead(fd int) {
	var b [1]byte
	for {
		n, _, e := syscall.Syscall(syscall.SYS_READ, uintptr(fd), uintptr(unsafe.Pointer(&b[0])), 1)
		if e == syscall.EINTR || e == syscall.EAGAIN {
			continue
		}
		if e != 0 || n != 1 {
			fatalf("simrt: baton read fd=%d n=%d errno=%d", fd, n, e)
		}
		return
	}
}

//go:norace
func wakeFD(fd int) {
	var b [1]byte
	for {
		n, _, e := syscall.RawSyscall(syscall.SYS_WRITE, uintptr(fd), uintptr(unsafe.Pointer(&b[0])), 1)
		if e == syscall.EINTR || e == syscall.EAGAIN {
			continue
		}
		if e != 0 || n != 1 {
			fatalf("simrt: baton write fd=%d n=%d errno=%d", fd, n, e)
		}
		return
	}
}

// New creates a simulation and attaches it (sets S).
//
//go:norace
func New(cfg Config, tape *Tape) *Sim {
	s := &Sim{Cfg: cfg, Tape: tape}
	s.ctlR, s.ctlW = pipe2()
	if s.Cfg.MaxTaskYields == 0 {
		s.Cfg.MaxTaskYields = 2000000
	}
	if s.Cfg.MaxSteps == 0 {
		s.Cfg.MaxSteps = 50000000
	}
	if s.Cfg.EpochNs == 0 {
		s.Cfg.EpochNs = 1767225600 * 1000000000 // 2026-01-01T00:00:00Z
	}
	s.Probes = make([]int64, NumProbes)
	s.fakeFD = 1 << 20
	ResetGlobals()
	s.drawPreempt()
	S = s
	return s
}

// Detach releases the simulation (shims go back to passthrough) and closes its pipes.
//
//go:norace
func (s *Sim) Detach() {
	if S == s {
		S = nil
	}
	syscall.Close(s.ctlR)
	syscall.Close(s.ctlW)
	for _, p := range s.pipePool {
		syscall.Close(p[0])
		syscall.Close(p[1])
	}
	s.pipePool = nil
	for _, t := range s.tasks {
		if t.State == StDone && t.rfd != 0 {
			// already recycled
		}
	}
}

//go:norace
func (s *Sim) drawPreempt() {
	if s.Cfg.PreemptMean <= 0 {
		s.preemptIn = 1 << 62
		return
	}
	d := s.Tape.Draw(1024)
	if d == 0 {
		s.preemptIn = 1 << 62
		return
	}
	s.preemptIn = 1 + int64(d-1)%int64(2*s.Cfg.PreemptMean)
}

// Now returns simulated nanoseconds since the epoch base.
//
//go:norace
func (s *Sim) Now() int64 { return s.now }

// Cur returns the running task (nil on the scheduler goroutine).
//
//go:norace
func (s *Sim) Cur() *Task { return s.cur }

//go:norace
func (s *Sim) Tasks() []*Task { return s.tasks }

// After schedules fn on the scheduler goroutine at now+d (scheduler context only).
//
//go:norace
func (s *Sim) After(dNs int64, fn func()) {
	if dNs < 0 {
		dNs = 0
	}
	s.evSeq++
	s.events = append(s.events, event{at: s.now + dNs, seq: s.evSeq, fn: fn})
}

//go:norace
func (s *Sim) nextEvent() int {
	best := -1
	for i := range s.events {
		if best < 0 || s.events[i].at < s.events[best].at || (s.events[i].at == s.events[best].at && s.events[i].seq < s.events[best].seq) {
			best = i
		}
	}
	return best
}

//go:norace
func (s *Sim) PendingEvents() int { return len(s.events) }

// Stop ends the run after the current step.
//
//go:norace
func (s *Sim) Stop(reason string) {
	if !s.stop {
		s.stop = true
		s.StopReason = reason
	}
}

//go:norace
func (s *Sim) Stopped() bool { return s.stop }

// Violation records a verdict.
//
//go:norace
func (s *Sim) Violation(prop, class, detail string) {
	s.Verdicts = append(s.Verdicts, Verdict{Property: prop, Class: class, Detail: detail, Step: s.Steps})
}

//go:norace
func (s *Sim) Tracef(kind string, task int, format string, a ...interface{}) {
	if !s.TraceOn {
		return
	}
	s.trace = append(s.trace, TraceRec{Step: s.Steps, Now: s.now, Kind: kind, Task: task, Info: fmt.Sprintf(format, a...)})
}

//go:norace
func (s *Sim) Trace() []TraceRec { return s.trace }

//go:norace
func (s *Sim) newTask(kind string, inc int, parent int, fn func()) *Task {
	t := &Task{ID: len(s.tasks) + 1, Kind: kind, Inc: inc, Parent: parent, State: StRunnable, fn: fn}
	if n := len(s.pipePool); n > 0 {
		t.rfd, t.wfd = s.pipePool[n-1][0], s.pipePool[n-1][1]
		s.pipePool = s.pipePool[:n-1]
	} else {
		t.rfd, t.wfd = pipe2()
	}
	t.prio = int64(s.Tape.Draw(1 << 16))
	s.tasks = append(s.tasks, t)
	return t
}

// Spawn creates a task from the scheduler goroutine.
//
//go:norace
func (s *Sim) Spawn(kind string, fn func()) *Task {
	t := s.newTask(kind, s.Inc, 0, fn)
	go taskMain(s, t)
	return t
}

// Go is what `go f(x)` in instrumented code becomes.
//
//go:norace
func Go(site int32, fn func()) {
	s := S
	if s == nil || s.cur == nil {
		go fn()
		return
	}
	cur := s.cur
	kind := "task"
	switch cur.Kind {
	case "serve":
		kind = "handler"
	case "main":
		kind = "bg"
	}
	t := s.newTask(kind, cur.Inc, cur.ID, fn)
	if cur.Tag != 0 {
		// the new goroutine works for the same datagram as its creator
		t.Tag = cur.Tag
		s.tagAcquire(t.Tag)
	}
	go taskMain(s, t)
	s.Tracef("spawn", cur.ID, "task=%d kind=%s tag=%d site=%s", t.ID, kind, t.Tag, SiteName(site))
	syncPoint(s, site)
}

// SetKind lets the harness label the current task (e.g. "serve").
//
//go:norace
func SetKind(kind string) {
	if s := S; s != nil && s.cur != nil {
		s.cur.Kind = kind
	}
}

//go:norace
func taskMain(s *Sim, t *Task) {
	blockRead(t.rfd) // wait for the baton
	defer taskEnd(s, t)
	t.fn()
}

//go:norace
func taskEnd(s *Sim, t *Task) {
	if r := recover(); r != nil {
		if _, ok := r.(abandonSignal); ok {
			// killed by a simulated crash while it had the baton: nothing to report
		} else {
			t.Panic = fmt.Sprint(r)
			t.Stack = string(debug.Stack())
		}
	}
	if t.State != StAbandoned {
		t.State = StDone
	}
	s.tagRelease(t.Tag)
	s.ended = append(s.ended, t)
	s.pipePool = append(s.pipePool, [2]int{t.rfd, t.wfd})
	t.rel.Store(1)
	wakeFD(s.ctlW) // give the baton back; this goroutine exits
}

type abandonSignal struct{}

// toSched hands the baton to the scheduler and blocks until resumed.
//
//go:norace
func (s *Sim) toSched(t *Task) {
	t.rel.Store(1)
	wakeFD(s.ctlW)
	blockRead(t.rfd)
	if t.State == StAbandoned {
		// never resumed in practice; kept for safety
		panic(abandonSignal{})
	}
}

//go:norace
func (s *Sim) resume(t *Task) {
	t.State = StRunning
	t.lastRun = s.Steps
	s.fairPick = false
	s.cur = t
	wakeFD(t.wfd)
	if !pollReadable(s.ctlR, hangWallMs) && s.stuckInDependency(t) {
		// the task will never hand the baton back; the run ends here (Stop), the goroutine dies with the process
		t.State = StAbandoned
		s.cur = nil
		return
	}
	blockRead(s.ctlR)
	t.rel.Load()
	s.cur = nil
}

// hangWallMs: wall-clock time the running task may go without reaching a yield point. Everything that can block
// in this code base is behind a seam and parks in the simulator; the exception is database/sql's connection
// pool, which makes a caller wait (for real) when SetMaxOpenConns is in force and every connection is in use.
const hangWallMs = 20000

// fairYields: statements a task may execute in one go before the longest-waiting runnable task gets a turn.
const fairYields = 20000

//go:norace
func pollReadable(fd int, timeoutMs int) bool {
	type pollfd struct {
		fd      int32
		events  int16
		revents int16
	}
	deadline := time.Now().Add(time.Duration(timeoutMs) * time.Millisecond)
	for {
		p := pollfd{fd: int32(fd), events: 1 /* POLLIN */}
		left := int(time.Until(deadline) / time.Millisecond)
		if left <= 0 {
			return false
		}
		n, _, e := syscall.Syscall(syscall.SYS_POLL, uintptr(unsafe.Pointer(&p)), 1, uintptr(left))
		if e == syscall.EINTR {
			continue
		}
		if e != 0 {
			fatalf("simrt: poll errno=%d", e)
		}
		return n == 1
	}
}

// stuckInDependency is called when the running task has not yielded for hangWallMs. If its goroutine waits for a
// database/sql connection and no other task could ever release one (none is runnable or sleeping: whoever holds
// the connections is gone or blocked behind this task), the server is blocked forever: a C01 violation. Anything
// else cannot be decided from here and is machinery trouble (exit 2), never a verdict.
//
//go:norace
func (s *Sim) stuckInDependency(t *Task) bool {
	buf := make([]byte, 8<<20)
	buf = buf[:runtime.Stack(buf, true)]
	var mine string
	for _, g := range strings.Split(string(buf), "\n\n") {
		if strings.Contains(g, "database/sql.(*DB).conn(") && strings.Contains(firstLine(g), "[select") {
			mine = g
			break
		}
	}
	others := 0
	for _, o := range s.tasks {
		if o != t && o.Inc == t.Inc && (o.State == StRunnable || o.State == StSleeping) {
			others++
		}
	}
	if mine == "" || others > 0 {
		fatalf("simrt: task %d (%s, datagram %d) has not reached a yield point for %d s of wall time after %s (waiting for a database/sql connection: %v; other tasks that could still run: %d): undecided\n%s",
			t.ID, t.Kind, t.Tag, hangWallMs/1000, SiteName(t.LastSite), mine != "", others, trimStack(mine))
	}
	s.Violation("C01", "blocked-forever/database-sql-connection-pool", fmt.Sprintf("task %d (%s, datagram %d) waits for a database/sql connection after %s and no other task is left that could release one: every connection of the pool is held by work that has already finished (a transaction or result set that was never closed); %d lock(s) are held meanwhile\n%s",
		t.ID, t.Kind, t.Tag, SiteName(t.LastSite), s.HeldLocks(), trimStack(mine)))
	s.Stop("blocked in database/sql")
	return true
}

//go:norace
func firstLine(x string) string {
	if i := strings.IndexByte(x, '\n'); i >= 0 {
		return x[:i]
	}
	return x
}

// Yield is inserted by simbuild before every statement of instrumented code.
//
//go:norace
func Yield(site int32) {
	s := S
	if s == nil {
		return
	}
	t := s.cur
	if t == nil {
		return
	}
	t.LastSite = site
	t.Yields++
	s.Steps++
	if t.Yields > s.Cfg.MaxTaskYields || s.Steps > s.Cfg.MaxSteps {
		s.Violation("C01", "nontermination", fmt.Sprintf("task %d (%s) exceeded yield budget at %s", t.ID, t.Kind, SiteName(site)))
		s.Stop("nontermination")
		t.State = StRunnable
		s.toSched(t)
		return
	}
	if s.crashAt != 0 && s.Steps >= s.crashAt && (s.crashSites == nil || s.crashSites[site]) {
		s.crashAt = 0
		s.crashNow(t)
		return
	}
	if s.stallAt != 0 && s.Steps >= s.stallAt && t.isHandler() && (s.stallSites == nil || s.stallSites[site]) {
		s.stallAt = 0
		s.FaultsFired[FStall]++
		s.Tracef("stall", t.ID, "ns=%d site=%s", s.stallNs, SiteName(site))
		t.WakeAt = s.now + s.stallNs
		t.State = StSleeping
		s.toSched(t)
		return
	}
	if t.Yields-t.fairMark >= fairYields {
		// bounded fairness: a task that has been running this long (a spin-wait, a long loop) lets the task that has
		// waited longest have a turn, whatever the scheduling policy of the run. Go's scheduler is preemptive; without
		// this a run-to-completion schedule would turn "wait until the other goroutine has finished" into a hang.
		t.fairMark = t.Yields
		s.fairPick = true
		t.State = StRunnable
		s.toSched(t)
		return
	}
	s.preemptIn--
	if s.preemptIn > 0 {
		return
	}
	s.drawPreempt()
	s.FaultsFired[FPreempt]++
	t.State = StRunnable
	s.toSched(t)
}

// syncPoint is a yield at a synchronisation operation.
//
//go:norace
func syncPoint(s *Sim, site int32) {
	t := s.cur
	if t == nil {
		return
	}
	s.Steps++
	if s.Cfg.SyncPreempt > 0 && int(s.Tape.Draw(8)) < s.Cfg.SyncPreempt {
		s.FaultsFired[FPreempt]++
		t.State = StRunnable
		s.toSched(t)
	}
}

// park blocks the current task in the given state until the scheduler resumes it.
//
//go:norace
func (s *Sim) park(st TaskState, obj unsafe.Pointer) {
	t := s.cur
	t.State = st
	t.waitObj = obj
	s.toSched(t)
	t.waitObj = nil
}

//go:norace
func (s *Sim) wakeWaiters(obj unsafe.Pointer, st TaskState) {
	for _, t := range s.tasks {
		if t.State == st && t.waitObj == obj {
			t.State = StRunnable
		}
	}
}

// ArmCrash makes the server crash at the first yield at or after global step
// `at` whose site is allowed by sites (nil = any). fn runs on the scheduler
// goroutine after every task of the incarnation has been abandoned.
//
//go:norace
func (s *Sim) ArmCrash(at int64, sites []bool, fn func(t *Task)) {
	s.crashAt = at
	s.crashSites = sites
	s.crashFn = fn
}

// Disarm cancels pending crash, stall, sql and readfile faults ("faults stop").
//
//go:norace
func (s *Sim) Disarm() {
	s.crashAt = 0
	s.stallAt = 0
	s.sqlFaultIn = 0
	s.readFileErrIn = 0
}

//go:norace
func (s *Sim) CrashArmed() bool { return s.crashAt != 0 }

//go:norace
func (s *Sim) ArmStall(at int64, ns int64, sites []bool) {
	s.stallAt = at
	s.stallNs = ns
	s.stallSites = sites
}

var crashPending *Task

//go:norace
func (s *Sim) crashNow(t *Task) {
	s.Tracef("crash", t.ID, "site=%s step=%d", SiteName(t.LastSite), s.Steps)
	crashPending = t
	t.State = StAbandoned
	t.rel.Store(1)
	wakeFD(s.ctlW)
	blockRead(t.rfd) // forever
	panic(abandonSignal{})
}

// KillIncarnation abandons every live task of incarnation inc and closes its ports (scheduler context).
//
//go:norace
func (s *Sim) KillIncarnation(inc int) {
	for _, t := range s.tasks {
		if t.Inc == inc && t.State != StDone {
			t.State = StAbandoned
		}
	}
	for _, p := range s.ports {
		if p.inc == inc {
			p.closed = true
		}
	}
	for _, w := range s.watchers {
		if w.inc == inc {
			w.dead = true
		}
	}
	for _, t := range simTimers {
		if t.inc == inc {
			t.stopped = true
		}
	}
	s.releaseLocksOf(inc)
	s.closeDBs(inc)
}

// RunResult summarises how Run ended.
type RunResult struct {
	Reason string // "quiescent", "stopped", "wedge", "panic"
}

// Run drives the simulation until quiescence or Stop (scheduler goroutine).
//
//go:norace
func (s *Sim) Run() RunResult {
	for {
		s.drain()
		if s.stop {
			return RunResult{Reason: "stopped"}
		}
		// wake sleepers
		for _, t := range s.tasks {
			if t.State == StSleeping && t.WakeAt <= s.now {
				t.State = StRunnable
			}
		}
		s.fireFuncTimers()
		var runnable []*Task
		handlersLive := false
		for _, t := range s.tasks {
			if t.State == StRunnable {
				runnable = append(runnable, t)
			}
			if t.isHandler() && t.State != StDone && t.State != StAbandoned {
				handlersLive = true
			}
		}
		ev := s.nextEvent()
		due := ev >= 0 && s.events[ev].at <= s.now
		if len(runnable) == 0 {
			if due {
				s.fire(ev)
				continue
			}
			// advance the clock to the next event or sleeper
			next := int64(-1)
			if ev >= 0 {
				next = s.events[ev].at
			}
			for _, t := range s.tasks {
				if t.State == StSleeping && (next < 0 || t.WakeAt < next) {
					next = t.WakeAt
				}
			}
			if tf := nextTimerOf(true); tf >= 0 && (next < 0 || tf < next) && s.timerOnlyAdvances < 64 {
				// an AfterFunc is due next: its function runs in a task of its own at that time
				next = tf
				s.timerOnlyAdvances++
			} else if tn := nextTimer(); tn >= 0 && (next < 0 || tn < next) {
				// a simulated timer: the tasks parked in a select or receive must look again when it is due.
				// A server that re-arms a timer forever is idle all the same: after 64 consecutive advances that
				// were driven by timers alone the run counts as quiescent.
				blocked := false
				for _, t := range s.tasks {
					if t.State == StBlockedChan {
						blocked = true
					}
				}
				if blocked && s.timerOnlyAdvances < 64 {
					next = tn
					s.timerOnlyAdvances++
				}
			} else if next >= 0 {
				s.timerOnlyAdvances = 0
			}
			if next < 0 {
				for _, t := range s.tasks {
					if t.State == StBlockedLock || t.State == StBlockedWG {
						return RunResult{Reason: "wedge"}
					}
				}
				return RunResult{Reason: "quiescent"}
			}
			if handlersLive {
				s.handlerBusyNs += next - s.now
			}
			s.now = next
			if tn := nextTimer(); tn >= 0 && tn <= s.now {
				s.ChanWake()
			}
			continue
		}
		// choose between runnable tasks, a due event, or letting time pass
		n := len(runnable)
		opts := n
		if due {
			opts++
		}
		skip := false
		if !due && ev >= 0 && s.Cfg.TimeSkip > 0 && s.events[ev].at-s.now <= s.Cfg.MaxTimeSkipNs && int(s.Tape.Draw(8)) < s.Cfg.TimeSkip {
			skip = true
		}
		if skip {
			s.FaultsFired[FTimeSkip]++
			s.TimeSkipped += s.events[ev].at - s.now
			s.now = s.events[ev].at
			s.fire(ev)
			continue
		}
		var idx int
		if s.fairPick && n > 1 {
			s.fairPick = false
			best := 0
			for i := 1; i < n; i++ {
				if runnable[i].lastRun < runnable[best].lastRun {
					best = i
				}
			}
			idx = best
		} else if s.Cfg.PCT && n > 1 {
			best := 0
			for i := 1; i < n; i++ {
				if runnable[i].prio > runnable[best].prio {
					best = i
				}
			}
			idx = best
			if due && s.Tape.Draw(4) == 1 {
				idx = n
			}
		} else {
			idx = int(s.Tape.Draw(uint32(opts)))
		}
		if idx >= n {
			s.fire(ev)
			continue
		}
		t := runnable[idx]
		if n > 1 {
			s.Switches++
			s.switches = (s.switches ^ uint64(t.LastSite+1) ^ uint64(len(t.Kind))<<20) * 1099511628211
		}
		if s.Cfg.PCT {
			// priority change point: the task that was preempted gets a new, lower priority
			if t.Yields > 0 && s.Tape.Draw(4) == 1 {
				t.prio = -int64(s.Steps)
			}
		}
		s.resume(t)
		if cp := crashPending; cp != nil {
			crashPending = nil
			s.FaultsFired[FCrash]++
			inc := cp.Inc
			s.KillIncarnation(inc)
			if s.crashFn != nil {
				s.crashFn(cp)
			}
		}
	}
}

//go:norace
func (s *Sim) SwitchHash() uint64 { return s.switches }

//go:norace
func (s *Sim) HandlerBusyNs() int64 { return s.handlerBusyNs }

//go:norace
func (s *Sim) fire(i int) {
	s.timerOnlyAdvances = 0
	e := s.events[i]
	s.events[i] = s.events[len(s.events)-1]
	s.events = s.events[:len(s.events)-1]
	if e.at > s.now {
		s.now = e.at
	}
	e.fn()
}

// drain delivers captures and ended tasks to the world.
//
//go:norace
func (s *Sim) drain() {
	for len(s.outbox) > 0 || len(s.ended) > 0 || len(s.doneTags) > 0 {
		if len(s.outbox) == 0 && len(s.ended) == 0 {
			break
		}
		if len(s.outbox) > 0 {
			c := s.outbox[0]
			s.outbox = s.outbox[1:]
			if s.Hooks.OnCapture != nil {
				s.Hooks.OnCapture(c)
			}
			continue
		}
		t := s.ended[0]
		s.ended = s.ended[1:]
		if t.Panic != "" {
			s.Violation("C01", "panic/"+SiteName(t.LastSite), fmt.Sprintf("task %d (%s, datagram %d) panicked: %s\n%s", t.ID, t.Kind, t.Tag, t.Panic, trimStack(t.Stack)))
			s.Stop("panic")
		}
		if s.Hooks.OnTaskEnd != nil {
			s.Hooks.OnTaskEnd(t)
		}
	}
	for len(s.doneTags) > 0 {
		tag := s.doneTags[0]
		s.doneTags = s.doneTags[1:]
		if s.Hooks.OnTagDone != nil {
			s.Hooks.OnTagDone(tag)
		}
	}
}

//go:norace
func trimStack(st string) string {
	if len(st) > 3000 {
		return st[:3000]
	}
	return st
}

// LiveBlocked reports tasks of the live incarnation blocked on a lock (for wedge diagnosis).
//
//go:norace
func (s *Sim) LiveBlocked() []*Task {
	var r []*Task
	for _, t := range s.tasks {
		if t.State == StBlockedLock || t.State == StBlockedWG {
			r = append(r, t)
		}
	}
	return r
}

// AdvanceClock jumps the simulated clock forward (scheduler context; a fault).
//
//go:norace
func (s *Sim) AdvanceClock(ns int64) {
	if ns > 0 {
		s.now += ns
	}
}
