package simrt

import "unsafe"

// Attribution of work to datagrams, independent of the server's goroutine structure.
//
// A task carries the tag (id) of the datagram it is working for: the receive loop from the moment ReadFrom returns
// the datagram until it asks for the next one; a goroutine started meanwhile inherits the tag of its creator (one
// goroutine per datagram, as coredhcp does); a value sent on a channel carries the sender's tag and hands it to
// the receiver (worker pools, hand-over to a writer goroutine). Every carrier counts as one reference; when the
// count drops to zero nothing in the server is working for that datagram any more and the world is told
// (Hooks.OnTagDone). A worker that comes back to the channel it got its job from has finished that job.
// Replies, log lines and plugin invocations are attributed to the tag of the task that produces them.

//go:norace
func (s *Sim) tagAcquire(tag int64) {
	if tag <= 0 || tag > 1<<24 {
		return
	}
	for int64(len(s.tagRefs)) <= tag {
		s.tagRefs = append(s.tagRefs, 0)
	}
	s.tagRefs[tag]++
}

//go:norace
func (s *Sim) tagRelease(tag int64) {
	if tag <= 0 || tag >= int64(len(s.tagRefs)) || s.tagRefs[tag] == 0 {
		return
	}
	s.tagRefs[tag]--
	if s.tagRefs[tag] == 0 {
		s.doneTags = append(s.doneTags, tag)
	}
}

// TagRefs reports how many carriers a datagram still has (scheduler context).
//
//go:norace
func (s *Sim) TagRefs(tag int64) int {
	if tag <= 0 || tag >= int64(len(s.tagRefs)) {
		return 0
	}
	return int(s.tagRefs[tag])
}

// TagCarriers lists the live tasks that carry tag (diagnosis of a handling that never finishes).
//
//go:norace
func (s *Sim) TagCarriers(tag int64) []*Task {
	var r []*Task
	for _, t := range s.tasks {
		if t.Tag == tag && t.State != StDone && t.State != StAbandoned {
			r = append(r, t)
		}
	}
	return r
}

//go:norace
func (t *Task) isHandler() bool {
	return t.Tag != 0 && t.Kind != "serve" && t.Kind != "main" || t.Kind == "handler"
}

// setTag makes the running task work for tag (0 = for nothing), keeping the reference counts right. The yield
// budget that detects a handling that does not terminate is per datagram, not per task.
//
//go:norace
func (s *Sim) setTag(t *Task, tag int64, transferred bool) {
	if t.Tag == tag && !transferred {
		return
	}
	old := t.Tag
	t.Tag = tag
	if !transferred {
		s.tagAcquire(tag)
	}
	s.tagRelease(old)
	t.Yields = 0
	t.fairMark = 0
}

// per-channel FIFO of the tags of the values in flight (parallel to the channel's own buffer)
type chanTagQ struct {
	id   unsafe.Pointer
	tags []int64
}

var chanTags []*chanTagQ

//go:norace
func chanTagPush(id unsafe.Pointer) {
	s := S
	if s == nil || s.cur == nil || id == nil {
		return
	}
	tag := s.cur.Tag
	var q *chanTagQ
	for _, c := range chanTags {
		if c.id == id {
			q = c
			break
		}
	}
	if q == nil {
		if tag == 0 {
			return // a channel that never carried work for a datagram needs no queue
		}
		q = &chanTagQ{id: id}
		chanTags = append(chanTags, q)
	}
	q.tags = append(q.tags, tag)
	s.tagAcquire(tag)
}

// chanTagPop is called by the receiver of a value: the value's reference becomes the receiver's.
//
//go:norace
func chanTagPop(id unsafe.Pointer) {
	s := S
	if s == nil || s.cur == nil || id == nil {
		return
	}
	for _, c := range chanTags {
		if c.id == id {
			if len(c.tags) == 0 {
				return
			}
			tag := c.tags[0]
			c.tags = c.tags[1:]
			if tag != 0 {
				s.setTag(s.cur, tag, true)
				s.cur.jobChan = id
				if s.cur.Kind == "task" || s.cur.Kind == "bg" {
					s.cur.Kind = "handler"
				}
			}
			return
		}
	}
}

// chanTagBack: a task that asks the channel it got its work from for more has finished that work.
//
//go:norace
func chanTagBack(id unsafe.Pointer) {
	s := S
	if s == nil || s.cur == nil || id == nil {
		return
	}
	if t := s.cur; t.jobChan == id && t.Tag != 0 {
		s.setTag(t, 0, false)
	}
}
