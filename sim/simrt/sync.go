package simrt

import (
	"sync"
	"sync/atomic"
	"unsafe"
)

// Mutex replaces sync.Mutex in instrumented code. It wraps the real mutex (so
// the race detector sees the program's own acquire/release edges) and makes
// blocking a scheduler decision.
type Mutex struct {
	mu     sync.Mutex
	holder int32 // task id (0 = none / passthrough)
	reg    bool
}

type lockRef struct {
	m  *Mutex
	rw *RWMutex
}

var lockRegistry []lockRef

//go:norace
func (m *Mutex) register(s *Sim) {
	if !m.reg {
		m.reg = true
		lockRegistry = append(lockRegistry, lockRef{m: m})
	}
}

//go:norace
func (m *Mutex) Lock() {
	s := S
	if s == nil || s.cur == nil {
		m.mu.Lock()
		return
	}
	m.register(s)
	syncPoint(s, -1)
	for !m.mu.TryLock() {
		Probe(PLockContended)
		s.park(StBlockedLock, unsafe.Pointer(m))
	}
	m.holder = int32(s.cur.ID)
}

//go:norace
func (m *Mutex) TryLock() bool {
	s := S
	if s == nil || s.cur == nil {
		return m.mu.TryLock()
	}
	m.register(s)
	syncPoint(s, -1)
	ok := m.mu.TryLock()
	if ok {
		m.holder = int32(s.cur.ID)
	}
	return ok
}

//go:norace
func (m *Mutex) Unlock() {
	s := S
	if s == nil || s.cur == nil {
		m.mu.Unlock()
		return
	}
	m.holder = 0
	m.mu.Unlock()
	s.wakeWaiters(unsafe.Pointer(m), StBlockedLock)
	syncPoint(s, -1)
}

// RWMutex replaces sync.RWMutex.
type RWMutex struct {
	mu      sync.RWMutex
	writer  int32
	readers []int32
	reg     bool
	// pendingWriters models sync.RWMutex's writer preference: a Lock call that is waiting excludes new
	// readers, which is what turns a recursive RLock into a deadlock when a writer arrives in between
	pendingWriters int32
}

//go:norace
func (m *RWMutex) register(s *Sim) {
	if !m.reg {
		m.reg = true
		lockRegistry = append(lockRegistry, lockRef{rw: m})
	}
}

//go:norace
func (m *RWMutex) Lock() {
	s := S
	if s == nil || s.cur == nil {
		m.mu.Lock()
		return
	}
	m.register(s)
	syncPoint(s, -1)
	m.pendingWriters++
	for !m.mu.TryLock() {
		Probe(PLockContended)
		s.park(StBlockedLock, unsafe.Pointer(m))
	}
	m.pendingWriters--
	m.writer = int32(s.cur.ID)
}

//go:norace
func (m *RWMutex) Unlock() {
	s := S
	if s == nil || s.cur == nil {
		m.mu.Unlock()
		return
	}
	m.writer = 0
	m.mu.Unlock()
	s.wakeWaiters(unsafe.Pointer(m), StBlockedLock)
	syncPoint(s, -1)
}

//go:norace
func (m *RWMutex) RLock() {
	s := S
	if s == nil || s.cur == nil {
		m.mu.RLock()
		return
	}
	m.register(s)
	syncPoint(s, -1)
	for m.pendingWriters > 0 || !m.mu.TryRLock() {
		Probe(PLockContended)
		s.park(StBlockedLock, unsafe.Pointer(m))
	}
	m.readers = append(m.readers, int32(s.cur.ID))
}

//go:norace
func (m *RWMutex) RUnlock() {
	s := S
	if s == nil || s.cur == nil {
		m.mu.RUnlock()
		return
	}
	id := int32(s.cur.ID)
	for i, r := range m.readers {
		if r == id {
			for zz := i; zz+1 < len(m.readers); zz++ {
				m.readers[zz] = m.readers[zz+1]
			}
			m.readers = m.readers[:len(m.readers)-1]
			break
		}
	}
	m.mu.RUnlock()
	s.wakeWaiters(unsafe.Pointer(m), StBlockedLock)
	syncPoint(s, -1)
}

//go:norace
func (m *RWMutex) TryLock() bool {
	s := S
	if s == nil || s.cur == nil {
		return m.mu.TryLock()
	}
	ok := m.mu.TryLock()
	if ok {
		m.register(s)
		m.writer = int32(s.cur.ID)
	}
	return ok
}

//go:norace
func (m *RWMutex) TryRLock() bool {
	s := S
	if s == nil || s.cur == nil {
		return m.mu.TryRLock()
	}
	ok := m.mu.TryRLock()
	if ok {
		m.register(s)
		m.readers = append(m.readers, int32(s.cur.ID))
	}
	return ok
}

//go:norace
func (m *RWMutex) RLocker() sync.Locker { return (*rlocker)(m) }

type rlocker RWMutex

//go:norace
func (r *rlocker) Lock() { (*RWMutex)(r).RLock() }

//go:norace
func (r *rlocker) Unlock() { (*RWMutex)(r).RUnlock() }

// releaseLocksOf force-releases locks held by abandoned tasks (a dead process holds no locks).
//
//go:norace
func (s *Sim) releaseLocksOf(inc int) {
	dead := func(id int32) bool {
		if id <= 0 || int(id) > len(s.tasks) {
			return false
		}
		t := s.tasks[id-1]
		return t.Inc == inc && t.State == StAbandoned
	}
	for _, r := range lockRegistry {
		if r.m != nil && r.m.holder != 0 && dead(r.m.holder) {
			r.m.holder = 0
			r.m.mu.Unlock()
			s.wakeWaiters(unsafe.Pointer(r.m), StBlockedLock)
		}
		if r.rw != nil {
			if r.rw.writer != 0 && dead(r.rw.writer) {
				r.rw.writer = 0
				r.rw.mu.Unlock()
				s.wakeWaiters(unsafe.Pointer(r.rw), StBlockedLock)
			}
			kept := r.rw.readers[:0]
			for _, id := range r.rw.readers {
				if dead(id) {
					r.rw.mu.RUnlock()
				} else {
					kept = append(kept, id)
				}
			}
			r.rw.readers = kept
			s.wakeWaiters(unsafe.Pointer(r.rw), StBlockedLock)
		}
	}
}

// HeldLocks reports how many registered locks are currently held by live tasks.
//
//go:norace
func (s *Sim) HeldLocks() int {
	n := 0
	for _, r := range lockRegistry {
		if r.m != nil && r.m.holder != 0 {
			n++
		}
		if r.rw != nil && (r.rw.writer != 0 || len(r.rw.readers) > 0) {
			n++
		}
	}
	return n
}

// WaitGroup replaces sync.WaitGroup.
type WaitGroup struct {
	wg sync.WaitGroup
	n  int64
}

//go:norace
func (w *WaitGroup) Add(d int) {
	w.n += int64(d)
	w.wg.Add(d)
	if s := S; s != nil && s.cur != nil && w.n <= 0 {
		s.wakeWaiters(unsafe.Pointer(w), StBlockedWG)
	}
}

//go:norace
func (w *WaitGroup) Done() { w.Add(-1) }

//go:norace
func (w *WaitGroup) Wait() {
	s := S
	if s == nil || s.cur == nil {
		w.wg.Wait()
		return
	}
	for w.n > 0 {
		s.park(StBlockedWG, unsafe.Pointer(w))
	}
	w.wg.Wait()
}

// Locker is sync.Locker.
type Locker = sync.Locker

// Pool replaces sync.Pool: deterministic, reuse chosen from the tape, buffers
// poisoned on Put so that any alias that outlives Put becomes visibly corrupt.
// The only happens-before edge it creates is Put(x) -> Get(x), as the real pool.
type Pool struct {
	New   func() any
	items []*poolItem
	real  sync.Pool
}

type poolItem struct {
	v    any
	flag atomic.Int32
}

//go:norace
func (p *Pool) Get() any {
	s := S
	if s == nil || s.cur == nil {
		if v := p.real.Get(); v != nil {
			return v
		}
		if p.New != nil {
			return p.New()
		}
		return nil
	}
	syncPoint(s, -1)
	n := len(p.items)
	if n > 0 && s.poolReuse > 0 {
		idx := n - 1
		if s.poolReuse == 1 {
			// 0 = allocate fresh, 1..n = reuse item
			d := int(s.Tape.Draw(uint32(n + 1)))
			if d == 0 {
				idx = -1
			} else {
				idx = d - 1
			}
		}
		if idx >= 0 {
			it := p.items[idx]
			for zz := idx; zz+1 < len(p.items); zz++ {
				p.items[zz] = p.items[zz+1]
			}
			p.items = p.items[:len(p.items)-1]
			it.flag.Load() // acquire: Put(x) happens-before Get(x)
			s.FaultsFired[FBufReuse]++
			return it.v
		}
	}
	if p.New != nil {
		return p.New()
	}
	return nil
}

//go:norace
func (p *Pool) Put(x any) {
	s := S
	if s == nil || s.cur == nil {
		p.real.Put(x)
		return
	}
	if bp, ok := x.(*[]byte); ok && bp != nil && !s.poolKeepStale {
		b := (*bp)[:cap(*bp)]
		for i := range b {
			b[i] = 0xA5
		}
	}
	it := &poolItem{v: x}
	it.flag.Store(1) // release
	p.items = append(p.items, it)
	syncPoint(s, -1)
}

// SetPoolStale leaves recycled buffers as they are (the previous datagram's bytes stay in them) instead of
// poisoning them: code that reads beyond the received length then sees plausible stale data.
//
//go:norace
func (s *Sim) SetPoolStale(keep bool) { s.poolKeepStale = keep }

// SetPoolReuse selects buffer recycling: 0 never reuse, 1 tape-chosen, 2 always the most recently returned.
//
//go:norace
func (s *Sim) SetPoolReuse(mode int) { s.poolReuse = mode }

// Once replaces sync.Once: same semantics (f runs once; every Do returns after f has completed), but a task that
// finds f in progress parks in the simulator instead of blocking the only running goroutine on a real mutex.
type Once struct {
	m    Mutex
	done atomic.Uint32
}

//go:norace
func (o *Once) Do(f func()) {
	if o.done.Load() == 1 {
		return
	}
	o.m.Lock()
	defer o.m.Unlock()
	if o.done.Load() == 0 {
		defer o.done.Store(1)
		f()
	}
}
