package simrt

import (
	"time"
	"unsafe"
)

// Lowered `select` (see simbuild.selectStmt): cases are polled with TryRecv / TrySend in an order drawn from
// the tape; when none is ready and there is no default clause the task parks until a channel event, a timer or
// any other task's progress wakes it.

// TryRecv is a non-blocking receive: (value, ok, got).
func TryRecv[T any](ch <-chan T) (T, bool, bool) {
	var zero T
	s := S
	if s == nil || s.cur == nil {
		select {
		case v, ok := <-ch:
			return v, ok, true
		default:
			return zero, false, false
		}
	}
	pumpWatchers()
	pumpTimers()
	select {
	case v, ok := <-ch:
		chanWake()
		return v, ok, true
	default:
	}
	if ch == nil {
		return zero, false, false
	}
	if m := mailTake(chanID(ch)); m != nil {
		chanWake()
		v, _ := m.v.(T)
		return v, true, true
	}
	return zero, false, false
}

// TrySend is a non-blocking send.
func TrySend[T any](ch chan<- T, v T) bool {
	s := S
	if s == nil || s.cur == nil {
		select {
		case ch <- v:
			return true
		default:
			return false
		}
	}
	if ch == nil {
		return false
	}
	if cap(ch) > 0 {
		select {
		case ch <- v:
			chanWake()
			return true
		default:
			return false
		}
	}
	// unbuffered: ready only when some task is waiting to receive from this channel
	id := *(*unsafe.Pointer)(unsafe.Pointer(&ch))
	if !receiverWaiting(id) {
		return false
	}
	mailPut(id, v)
	chanWake()
	return true
}

//go:norace
func receiverWaiting(id unsafe.Pointer) bool {
	s := S
	for _, t := range s.tasks {
		if t.State == StBlockedChan && t.waitObj == id && t != s.cur {
			return true
		}
	}
	return false
}

// SelectOrder returns 0..n-1 in an order drawn from the tape (Go picks a ready case at random).
//
//go:norace
func SelectOrder(n int) []int {
	o := make([]int, n)
	for i := range o {
		o[i] = i
	}
	s := S
	if s == nil || s.cur == nil {
		return o
	}
	for i := n - 1; i > 0; i-- {
		j := i - int(s.Tape.Draw(uint32(i+1)))
		o[i], o[j] = o[j], o[i]
	}
	return o
}

// SelectPark parks the task until something may have become ready.
//
//go:norace
func SelectPark() {
	s := S
	if s == nil || s.cur == nil {
		time.Sleep(50 * time.Microsecond)
		return
	}
	chanPark(nil)
}

type simTimer struct {
	at    int64
	ch    chan time.Time
	fired bool
}

var simTimers []*simTimer

// After replaces time.After: a channel that delivers once the simulated clock reaches now+d.
//
//go:norace
func After(d time.Duration) <-chan time.Time {
	s := S
	if s == nil {
		return time.After(d)
	}
	t := &simTimer{at: s.now + int64(d), ch: make(chan time.Time, 1)}
	simTimers = append(simTimers, t)
	return t.ch
}

// pumpTimers fires due timers from the context of the task that is about to look at its channels (no
// scheduler -> task happens-before edge is created).
//
//go:norace
func pumpTimers() {
	s := S
	if s == nil {
		return
	}
	for _, t := range simTimers {
		if !t.fired && t.at <= s.now {
			t.fired = true
			t.ch <- time.Unix(0, s.Cfg.EpochNs+s.now).UTC()
		}
	}
}

// nextTimer returns the earliest pending timer deadline (-1: none).
//
//go:norace
func nextTimer() int64 {
	next := int64(-1)
	for _, t := range simTimers {
		if !t.fired && (next < 0 || t.at < next) {
			next = t.at
		}
	}
	return next
}
