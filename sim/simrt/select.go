package simrt

import (
	"time"
	"unsafe"
)

// Lowered `select` (see simbuild.selectStmt): cases are polled with TryRecv / TrySend in an order drawn from
// the tape; when none is ready and there is no default clause the task parks until a channel event, a timer or
// any other task's progress wakes it.

// TryRecv is a non-blocking receive: (value, ok, got).
func TryRecv[T any](ch <-chan T) (T, bool, bool) {
	var zero T
	s := S
	if s == nil || s.cur == nil {
		select {
		case v, ok := <-ch:
			return v, ok, true
		default:
			return zero, false, false
		}
	}
	pumpWatchers()
	pumpTimers()
	chanTagBack(chanID(ch))
	select {
	case v, ok := <-ch:
		if ok {
			chanTagPop(chanID(ch))
		}
		chanWake()
		return v, ok, true
	default:
	}
	if ch == nil {
		return zero, false, false
	}
	if m := mailTake(chanID(ch)); m != nil {
		chanWake()
		mailTag(m)
		v, _ := m.v.(T)
		return v, true, true
	}
	return zero, false, false
}

// TrySend is a non-blocking send.
func TrySend[T any](ch chan<- T, v T) bool {
	s := S
	if s == nil || s.cur == nil {
		select {
		case ch <- v:
			return true
		default:
			return false
		}
	}
	if ch == nil {
		return false
	}
	if cap(ch) > 0 {
		select {
		case ch <- v:
			chanTagPush(*(*unsafe.Pointer)(unsafe.Pointer(&ch)))
			chanWake()
			return true
		default:
			return false
		}
	}
	// unbuffered: ready only when some task is waiting to receive from this channel
	id := *(*unsafe.Pointer)(unsafe.Pointer(&ch))
	if !receiverWaiting(id) {
		return false
	}
	m := mailPut(id, v)
	m.tag = s.cur.Tag
	s.tagAcquire(m.tag)
	chanWake()
	return true
}

//go:norace
func receiverWaiting(id unsafe.Pointer) bool {
	s := S
	for _, t := range s.tasks {
		if t.State == StBlockedChan && t.waitObj == id && t != s.cur {
			return true
		}
	}
	return false
}

// SelectOrder returns 0..n-1 in an order drawn from the tape (Go picks a ready case at random).
//
//go:norace
func SelectOrder(n int) []int {
	o := make([]int, n)
	for i := range o {
		o[i] = i
	}
	s := S
	if s == nil || s.cur == nil {
		return o
	}
	for i := n - 1; i > 0; i-- {
		j := i - int(s.Tape.Draw(uint32(i+1)))
		o[i], o[j] = o[j], o[i]
	}
	return o
}

// SelectPark parks the task until something may have become ready.
//
//go:norace
func SelectPark() {
	s := S
	if s == nil || s.cur == nil {
		time.Sleep(50 * time.Microsecond)
		return
	}
	chanPark(nil)
}

type simTimer struct {
	at      int64
	ch      chan time.Time
	fired   bool
	stopped bool
	period  int64  // ticker: re-armed after every firing
	fn      func() // AfterFunc: run in a task of its own when due
	inc     int
}

var simTimers []*simTimer

//go:norace
func newSimTimer(d time.Duration) *simTimer {
	s := S
	t := &simTimer{at: s.now + int64(d), ch: make(chan time.Time, 1), inc: s.Inc}
	if s.cur != nil {
		t.inc = s.cur.Inc
	}
	simTimers = append(simTimers, t)
	return t
}

// After replaces time.After: a channel that delivers once the simulated clock reaches now+d.
//
//go:norace
func After(d time.Duration) <-chan time.Time {
	if S == nil {
		return time.After(d)
	}
	return newSimTimer(d).ch
}

// Timer replaces time.Timer (NewTimer, AfterFunc).
type Timer struct {
	C    <-chan time.Time
	st   *simTimer
	real *time.Timer
}

//go:norace
func NewTimer(d time.Duration) *Timer {
	if S == nil {
		rt := time.NewTimer(d)
		return &Timer{C: rt.C, real: rt}
	}
	st := newSimTimer(d)
	return &Timer{C: st.ch, st: st}
}

//go:norace
func AfterFunc(d time.Duration, f func()) *Timer {
	if S == nil {
		return &Timer{real: time.AfterFunc(d, f)}
	}
	st := newSimTimer(d)
	st.fn = f
	st.ch = nil
	return &Timer{st: st}
}

//go:norace
func (t *Timer) Stop() bool {
	if t.real != nil {
		return t.real.Stop()
	}
	active := !t.st.fired && !t.st.stopped
	t.st.stopped = true
	return active
}

//go:norace
func (t *Timer) Reset(d time.Duration) bool {
	if t.real != nil {
		return t.real.Reset(d)
	}
	active := !t.st.fired && !t.st.stopped
	t.st.at = S.now + int64(d)
	t.st.fired, t.st.stopped = false, false
	return active
}

// Ticker replaces time.Ticker (NewTicker, Tick).
type Ticker struct {
	C    <-chan time.Time
	st   *simTimer
	real *time.Ticker
}

//go:norace
func NewTicker(d time.Duration) *Ticker {
	if d <= 0 {
		panic("non-positive interval for NewTicker")
	}
	if S == nil {
		rt := time.NewTicker(d)
		return &Ticker{C: rt.C, real: rt}
	}
	st := newSimTimer(d)
	st.period = int64(d)
	return &Ticker{C: st.ch, st: st}
}

//go:norace
func Tick(d time.Duration) <-chan time.Time {
	if d <= 0 {
		return nil
	}
	return NewTicker(d).C
}

//go:norace
func (t *Ticker) Stop() {
	if t.real != nil {
		t.real.Stop()
		return
	}
	t.st.stopped = true
}

//go:norace
func (t *Ticker) Reset(d time.Duration) {
	if t.real != nil {
		t.real.Reset(d)
		return
	}
	t.st.period = int64(d)
	t.st.at = S.now + int64(d)
	t.st.fired, t.st.stopped = false, false
}

// pumpTimers fires due timers from the context of the task that is about to look at its channels (no
// scheduler -> task happens-before edge is created). AfterFunc timers are started by the scheduler (fireFuncTimers).
//
//go:norace
func pumpTimers() {
	s := S
	if s == nil {
		return
	}
	for _, t := range simTimers {
		if t.fn != nil || t.stopped || t.fired || t.at > s.now {
			continue
		}
		select {
		case t.ch <- time.Unix(0, s.Cfg.EpochNs+s.now).UTC():
		default: // a ticker whose last tick was not consumed drops this one, as the real one does
		}
		if t.period > 0 {
			t.at += t.period
			if t.at <= s.now {
				t.at = s.now + t.period
			}
		} else {
			t.fired = true
		}
	}
}

// fireFuncTimers starts a task for every AfterFunc timer that is due (scheduler context).
//
//go:norace
func (s *Sim) fireFuncTimers() {
	for _, t := range simTimers {
		if t.fn != nil && !t.stopped && !t.fired && t.at <= s.now {
			t.fired = true
			fn := t.fn
			nt := s.newTask("timerfunc", t.inc, 0, fn)
			go taskMain(s, nt)
		}
	}
}

// nextTimer returns the earliest pending timer deadline (-1: none); funcOnly restricts it to AfterFunc timers.
//
//go:norace
func nextTimerOf(funcOnly bool) int64 {
	next := int64(-1)
	for _, t := range simTimers {
		if t.fired || t.stopped || (funcOnly && t.fn == nil) {
			continue
		}
		if next < 0 || t.at < next {
			next = t.at
		}
	}
	return next
}

//go:norace
func nextTimer() int64 { return nextTimerOf(false) }
