package simrt

import (
	"errors"
	"net"
	"syscall"
	"unsafe"
)

// Iface is one simulated network interface of the server host.
type Iface struct {
	Index int
	Name  string
	MAC   net.HardwareAddr
	Flags net.Flags
	MTU   int
	Addrs []net.IP // addresses configured on the interface (bind(2) needs them for unicast listen addresses)
}

//go:norace
func (s *Sim) SetInterfaces(ifs []Iface) { s.ifaces = ifs }

// OpenPort creates a simulated listener endpoint for the current incarnation.
//
//go:norace
func (s *Sim) OpenPort(v6 bool) int {
	p := &port{id: len(s.ports), v6: v6, inc: s.Inc}
	s.ports = append(s.ports, p)
	return p.id
}

// UDPConn is the simulated UDP socket returned by NewIPv4UDPConn / NewIPv6UDPConn.
type UDPConn struct{ id int }

// ID is the simulated port behind the socket.
//
//go:norace
func (c *UDPConn) ID() int { return c.id }

// Close closes the socket; a ReadFrom parked on it returns net.ErrClosed.
//
//go:norace
func (c *UDPConn) Close() error { return ClosePortTask(c.id) }

//go:norace
func (c *UDPConn) LocalAddr() net.Addr { return PortLocalAddr(c.id) }

// SocketFault makes the n-th socket opened from now on fail (0 = none); models EMFILE and friends.
//
//go:norace
func (s *Sim) SocketFault(n int) { s.sockFailIn = n }

//go:norace
func newUDPConn(v6 bool, iface string, addr *net.UDPAddr) (*UDPConn, error) {
	s := S
	if s == nil || s.cur == nil {
		return nil, errors.New("simrt: sockets exist only inside a simulation")
	}
	syncPoint(s, -1)
	if s.sockFailIn > 0 {
		s.sockFailIn--
		if s.sockFailIn == 0 {
			s.FaultsFired[FSockErr]++
			return nil, errors.New("cannot get a UDP socket: too many open files")
		}
	}
	p := &port{id: len(s.ports), v6: v6, inc: s.cur.Inc}
	if iface != "" {
		ifi, err := InterfaceByName(iface)
		if err != nil {
			return nil, errors.New("cannot bind to interface " + iface + ": no such device")
		}
		p.zone, p.bindIf = rawString(iface), ifi.Index
	}
	if addr == nil {
		if v6 {
			return nil, errors.New("An address to listen on needs to be specified")
		}
		addr = &net.UDPAddr{Port: 67}
	}
	ip := addr.IP
	if !v6 {
		if ip != nil && ip.To4() == nil {
			return nil, errors.New("wrong address family (expected v4) for " + ip.String())
		}
		ip = ip.To4()
		if ip == nil {
			ip = net.IPv4zero.To4()
		}
	} else {
		// the real constructor copies the 16-byte form into the sockaddr
		b := make([]byte, 16)
		for i := 0; i < len(ip) && i < 16; i++ {
			b[i] = ip[i]
		}
		ip = b
	}
	// bind(2): a unicast address has to be configured on the host (on the bound interface, if any)
	if !ip.IsUnspecified() && !ip.IsMulticast() && !ip.Equal(net.IPv4bcast) && !s.hostHasAddr(ip, p.bindIf) {
		return nil, errors.New("cannot bind to " + addr.String() + ": cannot assign requested address")
	}
	p.ip = rawCopy(ip)
	p.portNum = addr.Port
	s.ports = append(s.ports, p)
	return &UDPConn{id: p.id}, nil
}

//go:norace
func (s *Sim) hostHasAddr(ip net.IP, ifindex int) bool {
	for _, i := range s.ifaces {
		if ifindex != 0 && i.Index != ifindex {
			continue
		}
		for _, a := range i.Addrs {
			if a.Equal(ip) {
				return true
			}
		}
	}
	return false
}

// NewIPv4UDPConn replaces server4.NewIPv4UDPConn.
//
//go:norace
func NewIPv4UDPConn(iface string, addr *net.UDPAddr) (*UDPConn, error) {
	return newUDPConn(false, iface, addr)
}

// NewIPv6UDPConn replaces server6.NewIPv6UDPConn.
//
//go:norace
func NewIPv6UDPConn(iface string, addr *net.UDPAddr) (*UDPConn, error) {
	return newUDPConn(true, iface, addr)
}

// Control flag bits shared by x/net/ipv4 and ipv6 for the flags that matter here (FlagTTL/FlagTrafficClass = 1,
// FlagSrc = 2, FlagDst = 4, FlagInterface = 8); the sim4/sim6 packages translate.
const (
	CFlagHop = 1 << iota
	CFlagSrc
	CFlagDst
	CFlagInterface
	CFlagPathMTU
)

// PortSetControl models SetControlMessage.
//
//go:norace
func PortSetControl(id int, flags int, on bool) error {
	s := S
	if s == nil || id < 0 || id >= len(s.ports) {
		return syscall.EINVAL
	}
	p := s.ports[id]
	if p.closed {
		return net.ErrClosed
	}
	syncPoint(s, -1)
	if on {
		p.cflags |= flags
	} else {
		p.cflags &^= flags
	}
	return nil
}

// PortControl reports the control flags enabled on a socket.
//
//go:norace
func PortControl(id int) int {
	s := S
	if s == nil || id < 0 || id >= len(s.ports) {
		return 0
	}
	return s.ports[id].cflags
}

// PortJoinGroup models JoinGroup (IP_ADD_MEMBERSHIP / IPV6_JOIN_GROUP).
//
//go:norace
func PortJoinGroup(id int, ifi *net.Interface, group net.Addr) error {
	s := S
	if s == nil || id < 0 || id >= len(s.ports) {
		return syscall.EINVAL
	}
	p := s.ports[id]
	if p.closed {
		return net.ErrClosed
	}
	syncPoint(s, -1)
	var gip net.IP
	switch g := group.(type) {
	case *net.UDPAddr:
		if g != nil {
			gip = g.IP
		}
	case *net.IPAddr:
		if g != nil {
			gip = g.IP
		}
	}
	if gip == nil || !gip.IsMulticast() || (gip.To4() != nil) == p.v6 {
		return errors.New("invalid argument")
	}
	idx := 0
	if ifi != nil {
		if _, err := InterfaceByIndex(ifi.Index); err != nil {
			return errors.New("no such device")
		}
		idx = ifi.Index
	}
	p.groups = append(p.groups, GroupJoin{IfIndex: idx, Group: rawCopy(gip)})
	return nil
}

// ClosePortTask closes a socket from a task.
//
//go:norace
func ClosePortTask(id int) error {
	s := S
	if s == nil || id < 0 || id >= len(s.ports) {
		return syscall.EBADF
	}
	p := s.ports[id]
	if p.closed {
		return net.ErrClosed
	}
	p.closed = true
	s.wakeWaiters(unsafe.Pointer(p), StBlockedNet)
	syncPoint(s, -1)
	return nil
}

// Ports lists every socket opened so far (scheduler context).
//
//go:norace
func (s *Sim) Ports() []PortInfo {
	var r []PortInfo
	for _, p := range s.ports {
		r = append(r, PortInfo{ID: p.id, V6: p.v6, Inc: p.inc, Closed: p.closed, Zone: p.zone, BindIf: p.bindIf, IP: p.ip, Port: p.portNum, CFlags: p.cflags, Groups: p.groups, Backlog: len(p.inbox)})
	}
	return r
}

// Inject queues a datagram on a listener (scheduler context). Returns false if the port is closed.
//
//go:norace
func (s *Sim) Inject(portID int, d Datagram) bool {
	if portID < 0 || portID >= len(s.ports) {
		return false
	}
	p := s.ports[portID]
	if p.closed {
		return false
	}
	p.inbox = append(p.inbox, d)
	s.wakeWaiters(unsafe.Pointer(p), StBlockedNet)
	return true
}

//go:norace
func (s *Sim) PortOpen(portID int) bool {
	return portID >= 0 && portID < len(s.ports) && !s.ports[portID].closed
}

//go:norace
func (s *Sim) PortBacklog(portID int) int { return len(s.ports[portID].inbox) }

// PortQueued reports whether datagram id is still waiting, unread, on the socket.
//
//go:norace
func (s *Sim) PortQueued(portID int, id int64) bool {
	if portID < 0 || portID >= len(s.ports) {
		return false
	}
	for _, d := range s.ports[portID].inbox {
		if d.ID == id {
			return true
		}
	}
	return false
}

//go:norace
func (s *Sim) ClosePort(portID int) {
	p := s.ports[portID]
	p.closed = true
	s.wakeWaiters(unsafe.Pointer(p), StBlockedNet)
}

// rawCopy copies byte by byte. The builtin copy() compiles to runtime.slicecopy in race builds, which
// reports the access even from a norace function; datagram bytes are written by the scheduler-side world
// and must reach the task without any detector-visible access (and without a happens-before edge).
//
//go:norace
func rawCopy(src []byte) []byte {
	dst := make([]byte, len(src))
	for i := 0; i < len(src); i++ {
		dst[i] = src[i]
	}
	return dst
}

//go:norace
func rawAppend(dst, src []byte) []byte {
	n := len(dst)
	out := make([]byte, n+len(src))
	for i := 0; i < n; i++ {
		out[i] = dst[i]
	}
	for i := 0; i < len(src); i++ {
		out[n+i] = src[i]
	}
	return out
}

//go:norace
func rawString(s string) string {
	if s == "" {
		return ""
	}
	b := make([]byte, len(s))
	for i := 0; i < len(s); i++ {
		b[i] = s[i]
	}
	return string(b)
}

type taken struct {
	data    []byte
	srcIP   []byte
	srcPort int
	srcZone string
	ifindex int
	dstIP   []byte
}

// netTake parks until a datagram is queued, then returns a private copy of it.
//
//go:norace
func netTake(portID int) (tk taken, err error) {
	s := S
	p := s.ports[portID]
	if s.cur != nil && s.cur.Kind != "serve" {
		s.cur.Kind = "serve"
	}
	if s.cur != nil {
		// asking for the next datagram: the receive loop is done with the previous one
		s.setTag(s.cur, 0, false)
	}
	for {
		if p.closed {
			return tk, net.ErrClosed
		}
		if len(p.inbox) > 0 {
			d := p.inbox[0]
			p.inbox = p.inbox[1:]
			p.reads++
			tk = taken{data: rawCopy(d.Bytes), srcIP: rawCopy(d.SrcIP), srcPort: d.SrcPort, srcZone: rawString(d.SrcZone), ifindex: d.IfIndex, dstIP: rawCopy(d.DstIP)}
			if s.cur != nil {
				s.setTag(s.cur, d.ID, false)
			}
			s.Tracef("recv", s.cur.ID, "datagram=%d len=%d port=%d", d.ID, len(tk.data), portID)
			return tk, nil
		}
		s.park(StBlockedNet, unsafe.Pointer(p))
	}
}

// NetRead is ReadFrom on a simulated listener (race-visible: on purpose). The copy into b is done by
// instrumented code (not norace) on purpose: it is the write the race detector
// must see when a handler still aliases a recycled receive buffer.
func NetRead(portID int, b []byte) (n int, ifindex int, dst net.IP, src *net.UDPAddr, err error) {
	tk, err := netTake(portID)
	if err != nil {
		return 0, 0, nil, nil, err
	}
	n = copy(b, tk.data)
	src = &net.UDPAddr{IP: net.IP(tk.srcIP), Port: tk.srcPort, Zone: tk.srcZone}
	if len(tk.dstIP) > 0 {
		dst = net.IP(tk.dstIP)
	}
	return n, tk.ifindex, dst, src, nil
}

// NetWrite is WriteTo on a simulated listener.
//
//go:norace
func NetWrite(portID int, b []byte, hasCM bool, ifindex int, dst net.Addr) (int, error) {
	s := S
	c := &Capture{Port: portID, Bytes: append([]byte(nil), b...), HasCM: hasCM, IfIndex: ifindex, Step: s.Steps, Now: s.now}
	if portID >= 0 && portID < len(s.ports) {
		if s.ports[portID].closed {
			return 0, net.ErrClosed
		}
		c.V6 = s.ports[portID].v6
	}
	if u, ok := dst.(*net.UDPAddr); ok && u != nil {
		c.DstIP = append([]byte(nil), u.IP...)
		c.DstPort = u.Port
		c.DstZone = u.Zone
	} else if dst == nil {
		return 0, errors.New("simrt: WriteTo with nil destination")
	}
	s.emit(c)
	return len(b), nil
}

//go:norace
func (s *Sim) emit(c *Capture) {
	if t := s.cur; t != nil {
		c.Task = t.ID
		c.Inc = t.Inc
		c.Datagram = t.Tag
		t.Writes++
		s.Tracef("send", t.ID, "datagram=%d len=%d l2=%v", c.Datagram, len(c.Bytes), c.L2)
		s.outbox = append(s.outbox, c)
		s.Steps++
		t.State = StRunnable
		s.toSched(t)
		return
	}
	s.outbox = append(s.outbox, c)
}

// PortLocalAddr is LocalAddr on a simulated socket.
//
//go:norace
func PortLocalAddr(portID int) net.Addr {
	s := S
	if s == nil || portID < 0 || portID >= len(s.ports) {
		return &net.UDPAddr{}
	}
	p := s.ports[portID]
	return &net.UDPAddr{IP: net.IP(rawCopy(p.ip)), Port: p.portNum, Zone: p.zone}
}

// InterfaceByIndex replaces net.InterfaceByIndex.
//
//go:norace
func InterfaceByIndex(index int) (*net.Interface, error) {
	s := S
	if s == nil {
		return net.InterfaceByIndex(index)
	}
	for _, i := range s.ifaces {
		if i.Index == index {
			return &net.Interface{Index: i.Index, Name: i.Name, HardwareAddr: append(net.HardwareAddr(nil), i.MAC...), Flags: i.Flags, MTU: i.MTU}, nil
		}
	}
	return nil, errors.New("route ip+net: no such network interface")
}

// InterfaceByName replaces net.InterfaceByName.
//
//go:norace
func InterfaceByName(name string) (*net.Interface, error) {
	s := S
	if s == nil {
		return net.InterfaceByName(name)
	}
	for _, i := range s.ifaces {
		if i.Name == name {
			return &net.Interface{Index: i.Index, Name: i.Name, HardwareAddr: append(net.HardwareAddr(nil), i.MAC...), Flags: i.Flags, MTU: i.MTU}, nil
		}
	}
	return nil, errors.New("route ip+net: no such network interface")
}

// Interfaces replaces net.Interfaces.
//
//go:norace
func Interfaces() ([]net.Interface, error) {
	s := S
	if s == nil {
		return net.Interfaces()
	}
	var r []net.Interface
	for _, i := range s.ifaces {
		r = append(r, net.Interface{Index: i.Index, Name: i.Name, HardwareAddr: append(net.HardwareAddr(nil), i.MAC...), Flags: i.Flags, MTU: i.MTU})
	}
	return r, nil
}

//go:norace
func ifaceNets(i Iface) []net.Addr {
	var r []net.Addr
	for _, a := range i.Addrs {
		if v4 := a.To4(); v4 != nil {
			r = append(r, &net.IPNet{IP: append(net.IP(nil), v4...), Mask: net.CIDRMask(24, 32)})
		} else {
			r = append(r, &net.IPNet{IP: append(net.IP(nil), a...), Mask: net.CIDRMask(64, 128)})
		}
	}
	return r
}

// IfaceAddrs replaces (*net.Interface).Addrs.
//
//go:norace
func IfaceAddrs(index int) ([]net.Addr, error) {
	s := S
	if s == nil {
		ifi, err := net.InterfaceByIndex(index)
		if err != nil {
			return nil, err
		}
		return ifi.Addrs()
	}
	for _, i := range s.ifaces {
		if i.Index == index {
			return ifaceNets(i), nil
		}
	}
	return nil, errors.New("route ip+net: no such network interface")
}

// IfaceMulticastAddrs replaces (*net.Interface).MulticastAddrs (memberships are not modelled per interface).
//
//go:norace
func IfaceMulticastAddrs(index int) ([]net.Addr, error) {
	if _, err := IfaceAddrs(index); err != nil {
		return nil, err
	}
	return nil, nil
}

// InterfaceAddrs replaces net.InterfaceAddrs.
//
//go:norace
func InterfaceAddrs() ([]net.Addr, error) {
	s := S
	if s == nil {
		return net.InterfaceAddrs()
	}
	var r []net.Addr
	for _, i := range s.ifaces {
		r = append(r, ifaceNets(i)...)
	}
	return r, nil
}

type l2sock struct {
	fd     int
	domain int
	closed bool
}

// SysSocket replaces syscall.Socket in server/sendEthernet.go.
//
//go:norace
func SysSocket(domain, typ, proto int) (int, error) {
	s := S
	if s == nil {
		return syscall.Socket(domain, typ, proto)
	}
	s.fakeFD++
	s.l2socks = append(s.l2socks, l2sock{fd: s.fakeFD, domain: domain})
	return s.fakeFD, nil
}

//go:norace
func (s *Sim) findSock(fd int) *l2sock {
	for i := range s.l2socks {
		if s.l2socks[i].fd == fd {
			return &s.l2socks[i]
		}
	}
	return nil
}

// SysClose replaces syscall.Close.
//
//go:norace
func SysClose(fd int) error {
	s := S
	if s == nil {
		return syscall.Close(fd)
	}
	k := s.findSock(fd)
	if k == nil {
		return syscall.Close(fd)
	}
	if k.closed {
		return syscall.EBADF
	}
	k.closed = true
	return nil
}

// SysSetsockoptInt replaces syscall.SetsockoptInt.
//
//go:norace
func SysSetsockoptInt(fd, level, opt, value int) error {
	s := S
	if s == nil || s.findSock(fd) == nil {
		return syscall.SetsockoptInt(fd, level, opt, value)
	}
	return nil
}

// SysSendto replaces syscall.Sendto: a raw frame leaves on an interface.
//
//go:norace
func SysSendto(fd int, p []byte, flags int, to syscall.Sockaddr) error {
	s := S
	if s == nil {
		return syscall.Sendto(fd, p, flags, to)
	}
	k := s.findSock(fd)
	if k == nil || k.closed {
		return syscall.EBADF
	}
	c := &Capture{Port: -1, L2: true, Bytes: append([]byte(nil), p...), Step: s.Steps, Now: s.now}
	if ll, ok := to.(*syscall.SockaddrLinklayer); ok && ll != nil {
		c.HasCM = true
		c.IfIndex = ll.Ifindex
		c.DstMAC = append([]byte(nil), ll.Addr[:ll.Halen]...)
	}
	s.emit(c)
	return nil
}

// OpenL2Sockets reports raw sockets that were opened and not closed (leak check).
//
//go:norace
func (s *Sim) OpenL2Sockets() int {
	n := 0
	for _, k := range s.l2socks {
		if !k.closed {
			n++
		}
	}
	return n
}
