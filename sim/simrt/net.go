package simrt

import (
	"errors"
	"net"
	"syscall"
	"unsafe"
)

// Iface is one simulated network interface of the server host.
type Iface struct {
	Index int
	Name  string
	MAC   net.HardwareAddr
	Flags net.Flags
	MTU   int
}

//go:norace
func (s *Sim) SetInterfaces(ifs []Iface) { s.ifaces = ifs }

// OpenPort creates a simulated listener endpoint for the current incarnation.
//
//go:norace
func (s *Sim) OpenPort(v6 bool) int {
	p := &port{id: len(s.ports), v6: v6, inc: s.Inc}
	s.ports = append(s.ports, p)
	return p.id
}

// OpenPortTask is OpenPort for use from a task (the injected listener constructor).
//
//go:norace
func OpenPortTask(v6 bool) int {
	s := S
	if s == nil {
		return -1
	}
	inc := s.Inc
	if s.cur != nil {
		inc = s.cur.Inc
	}
	p := &port{id: len(s.ports), v6: v6, inc: inc}
	s.ports = append(s.ports, p)
	return p.id
}

// Inject queues a datagram on a listener (scheduler context). Returns false if the port is closed.
//
//go:norace
func (s *Sim) Inject(portID int, d Datagram) bool {
	if portID < 0 || portID >= len(s.ports) {
		return false
	}
	p := s.ports[portID]
	if p.closed {
		return false
	}
	p.inbox = append(p.inbox, d)
	s.wakeWaiters(unsafe.Pointer(p), StBlockedNet)
	return true
}

//go:norace
func (s *Sim) PortOpen(portID int) bool {
	return portID >= 0 && portID < len(s.ports) && !s.ports[portID].closed
}

//go:norace
func (s *Sim) PortBacklog(portID int) int { return len(s.ports[portID].inbox) }

//go:norace
func (s *Sim) ClosePort(portID int) {
	p := s.ports[portID]
	p.closed = true
	s.wakeWaiters(unsafe.Pointer(p), StBlockedNet)
}

// rawCopy copies byte by byte. The builtin copy() compiles to runtime.slicecopy in race builds, which
// reports the access even from a norace function; datagram bytes are written by the scheduler-side world
// and must reach the task without any detector-visible access (and without a happens-before edge).
//
//go:norace
func rawCopy(src []byte) []byte {
	dst := make([]byte, len(src))
	for i := 0; i < len(src); i++ {
		dst[i] = src[i]
	}
	return dst
}

//go:norace
func rawAppend(dst, src []byte) []byte {
	n := len(dst)
	out := make([]byte, n+len(src))
	for i := 0; i < n; i++ {
		out[i] = dst[i]
	}
	for i := 0; i < len(src); i++ {
		out[n+i] = src[i]
	}
	return out
}

//go:norace
func rawString(s string) string {
	if s == "" {
		return ""
	}
	b := make([]byte, len(s))
	for i := 0; i < len(s); i++ {
		b[i] = s[i]
	}
	return string(b)
}

type taken struct {
	data    []byte
	srcIP   []byte
	srcPort int
	srcZone string
	ifindex int
}

// netTake parks until a datagram is queued, then returns a private copy of it.
//
//go:norace
func netTake(portID int) (tk taken, err error) {
	s := S
	p := s.ports[portID]
	if s.cur != nil && s.cur.Kind != "serve" {
		s.cur.Kind = "serve"
	}
	for {
		if p.closed {
			return tk, net.ErrClosed
		}
		if len(p.inbox) > 0 {
			d := p.inbox[0]
			p.inbox = p.inbox[1:]
			p.reads++
			tk = taken{data: rawCopy(d.Bytes), srcIP: rawCopy(d.SrcIP), srcPort: d.SrcPort, srcZone: rawString(d.SrcZone), ifindex: d.IfIndex}
			if s.cur != nil {
				s.cur.pendTag = d.ID
			}
			s.Tracef("recv", s.cur.ID, "datagram=%d len=%d port=%d", d.ID, len(tk.data), portID)
			return tk, nil
		}
		s.park(StBlockedNet, unsafe.Pointer(p))
	}
}

// NetRead is ReadFrom on a simulated listener (race-visible: on purpose). The copy into b is done by
// instrumented code (not norace) on purpose: it is the write the race detector
// must see when a handler still aliases a recycled receive buffer.
func NetRead(portID int, b []byte) (n int, ifindex int, src *net.UDPAddr, err error) {
	tk, err := netTake(portID)
	if err != nil {
		return 0, 0, nil, err
	}
	n = copy(b, tk.data)
	src = &net.UDPAddr{IP: net.IP(tk.srcIP), Port: tk.srcPort, Zone: tk.srcZone}
	return n, tk.ifindex, src, nil
}

// NetWrite is WriteTo on a simulated listener.
//
//go:norace
func NetWrite(portID int, b []byte, hasCM bool, ifindex int, dst net.Addr) (int, error) {
	s := S
	c := &Capture{Port: portID, Bytes: append([]byte(nil), b...), HasCM: hasCM, IfIndex: ifindex, Step: s.Steps, Now: s.now}
	if portID >= 0 && portID < len(s.ports) {
		c.V6 = s.ports[portID].v6
	}
	if u, ok := dst.(*net.UDPAddr); ok && u != nil {
		c.DstIP = append([]byte(nil), u.IP...)
		c.DstPort = u.Port
		c.DstZone = u.Zone
	} else if dst == nil {
		return 0, errors.New("simrt: WriteTo with nil destination")
	}
	s.emit(c)
	return len(b), nil
}

//go:norace
func (s *Sim) emit(c *Capture) {
	if t := s.cur; t != nil {
		c.Task = t.ID
		c.Inc = t.Inc
		c.Datagram = t.Tag
		if c.Datagram == 0 {
			c.Datagram = t.pendTag
		}
		t.Writes++
		s.Tracef("send", t.ID, "datagram=%d len=%d l2=%v", c.Datagram, len(c.Bytes), c.L2)
		s.outbox = append(s.outbox, c)
		s.Steps++
		t.State = StRunnable
		s.toSched(t)
		return
	}
	s.outbox = append(s.outbox, c)
}

// PortLocalAddr is LocalAddr on a simulated listener.
//
//go:norace
func PortLocalAddr(portID int, v6 bool) net.Addr {
	if v6 {
		return &net.UDPAddr{IP: net.IPv6unspecified, Port: 547}
	}
	return &net.UDPAddr{IP: net.IPv4zero, Port: 67}
}

// InterfaceByIndex replaces net.InterfaceByIndex.
//
//go:norace
func InterfaceByIndex(index int) (*net.Interface, error) {
	s := S
	if s == nil {
		return net.InterfaceByIndex(index)
	}
	for _, i := range s.ifaces {
		if i.Index == index {
			return &net.Interface{Index: i.Index, Name: i.Name, HardwareAddr: append(net.HardwareAddr(nil), i.MAC...), Flags: i.Flags, MTU: i.MTU}, nil
		}
	}
	return nil, errors.New("route ip+net: no such network interface")
}

// InterfaceByName replaces net.InterfaceByName.
//
//go:norace
func InterfaceByName(name string) (*net.Interface, error) {
	s := S
	if s == nil {
		return net.InterfaceByName(name)
	}
	for _, i := range s.ifaces {
		if i.Name == name {
			return &net.Interface{Index: i.Index, Name: i.Name, HardwareAddr: append(net.HardwareAddr(nil), i.MAC...), Flags: i.Flags, MTU: i.MTU}, nil
		}
	}
	return nil, errors.New("route ip+net: no such network interface")
}

// Interfaces replaces net.Interfaces.
//
//go:norace
func Interfaces() ([]net.Interface, error) {
	s := S
	if s == nil {
		return net.Interfaces()
	}
	var r []net.Interface
	for _, i := range s.ifaces {
		r = append(r, net.Interface{Index: i.Index, Name: i.Name, HardwareAddr: append(net.HardwareAddr(nil), i.MAC...), Flags: i.Flags, MTU: i.MTU})
	}
	return r, nil
}

type l2sock struct {
	fd     int
	domain int
	closed bool
}

// SysSocket replaces syscall.Socket in server/sendEthernet.go.
//
//go:norace
func SysSocket(domain, typ, proto int) (int, error) {
	s := S
	if s == nil {
		return syscall.Socket(domain, typ, proto)
	}
	s.fakeFD++
	s.l2socks = append(s.l2socks, l2sock{fd: s.fakeFD, domain: domain})
	return s.fakeFD, nil
}

//go:norace
func (s *Sim) findSock(fd int) *l2sock {
	for i := range s.l2socks {
		if s.l2socks[i].fd == fd {
			return &s.l2socks[i]
		}
	}
	return nil
}

// SysClose replaces syscall.Close.
//
//go:norace
func SysClose(fd int) error {
	s := S
	if s == nil {
		return syscall.Close(fd)
	}
	k := s.findSock(fd)
	if k == nil {
		return syscall.Close(fd)
	}
	if k.closed {
		return syscall.EBADF
	}
	k.closed = true
	return nil
}

// SysSetsockoptInt replaces syscall.SetsockoptInt.
//
//go:norace
func SysSetsockoptInt(fd, level, opt, value int) error {
	s := S
	if s == nil || s.findSock(fd) == nil {
		return syscall.SetsockoptInt(fd, level, opt, value)
	}
	return nil
}

// SysSendto replaces syscall.Sendto: a raw frame leaves on an interface.
//
//go:norace
func SysSendto(fd int, p []byte, flags int, to syscall.Sockaddr) error {
	s := S
	if s == nil {
		return syscall.Sendto(fd, p, flags, to)
	}
	k := s.findSock(fd)
	if k == nil || k.closed {
		return syscall.EBADF
	}
	c := &Capture{Port: -1, L2: true, Bytes: append([]byte(nil), p...), Step: s.Steps, Now: s.now}
	if ll, ok := to.(*syscall.SockaddrLinklayer); ok && ll != nil {
		c.HasCM = true
		c.IfIndex = ll.Ifindex
		c.DstMAC = append([]byte(nil), ll.Addr[:ll.Halen]...)
	}
	s.emit(c)
	return nil
}

// OpenL2Sockets reports raw sockets that were opened and not closed (leak check).
//
//go:norace
func (s *Sim) OpenL2Sockets() int {
	n := 0
	for _, k := range s.l2socks {
		if !k.closed {
			n++
		}
	}
	return n
}
