package simrt

import (
	"fmt"
	"sort"
	"sync/atomic"
	"unsafe"
)

// Probe counters: "this rare condition was reached".
const (
	PLockContended = iota
	PClockRead
	PSleep
	PMapRange
	PChanRecvBlocked
	PSQLExec
	PFileReload
	PFileReloadFail
	PWatchLost
	PInotifyOverflow
	PUser0    // first index available to engines
	NumProbes = 96
)

//go:norace
func Probe(i int) {
	if s := S; s != nil && i < len(s.Probes) {
		s.Probes[i]++
	}
}

// SiteTable maps yield-site ids to file:line of the original source; filled by generated code.
var SiteTable []string

//go:norace
func SiteName(site int32) string {
	if site < 0 || int(site) >= len(SiteTable) {
		return "-"
	}
	return SiteTable[site]
}

// MapKeys is what `range m` over a map becomes: the keys in an order drawn from
// the tape (every order is legal Go). Keys are first put into a canonical order
// so the result depends only on the tape.
func MapKeys[M ~map[K]V, K comparable, V any](m M) []K {
	keys := make([]K, 0, len(m))
	for k := range m {
		keys = append(keys, k)
	}
	if len(keys) < 2 {
		return keys
	}
	strs := make([]string, len(keys))
	for i, k := range keys {
		strs[i] = fmt.Sprintf("%#v", k)
	}
	idx := make([]int, len(keys))
	for i := range idx {
		idx[i] = i
	}
	sort.Slice(idx, func(a, b int) bool { return strs[idx[a]] < strs[idx[b]] })
	out := make([]K, len(keys))
	for i, j := range idx {
		out[i] = keys[j]
	}
	shuffleHook(len(out), func(i, j int) { out[i], out[j] = out[j], out[i] })
	return out
}

//go:norace
func shuffleHook(n int, swap func(i, j int)) {
	s := S
	if s == nil {
		return
	}
	Probe(PMapRange)
	moved := false
	for i := n - 1; i > 0; i-- {
		// 0 = keep in place (canonical order on an exhausted tape)
		j := i - int(s.Tape.Draw(uint32(i+1)))
		if j != i {
			swap(i, j)
			moved = true
		}
	}
	if moved {
		s.FaultsFired[FMapOrder]++
	}
}

// Channel operations between tasks. Buffered channels are used for real
// (non-blocking select + park); an unbuffered send with no real receiver goes
// through a mailbox so that two parked tasks can still rendezvous. The
// mailbox carries an atomic flag so that the send happens-before the receive,
// as with a real channel.
type mail struct {
	id    unsafe.Pointer
	v     any
	flag  atomic.Int32
	taken bool
	tag   int64
}

var mailbox []*mail

//go:norace
func mailTake(id unsafe.Pointer) *mail {
	for i, m := range mailbox {
		if m.id == id {
			for zz := i; zz+1 < len(mailbox); zz++ {
				mailbox[zz] = mailbox[zz+1]
			}
			mailbox = mailbox[:len(mailbox)-1]
			m.flag.Load()
			m.taken = true
			return m
		}
	}
	return nil
}

//go:norace
func mailPut(id unsafe.Pointer, v any) *mail {
	m := &mail{id: id, v: v}
	m.flag.Store(1)
	mailbox = append(mailbox, m)
	return m
}

// Recv is `v, ok := <-ch` in instrumented code.
func Recv[T any](ch <-chan T) (T, bool) {
	s := S
	if s == nil || s.cur == nil {
		v, ok := <-ch
		return v, ok
	}
	id := chanID(ch)
	syncPoint(s, -1)
	chanTagBack(id)
	for {
		pumpWatchers()
		pumpTimers()
		select {
		case v, ok := <-ch:
			if ok {
				chanTagPop(id)
			}
			return v, ok
		default:
		}
		if m := mailTake(id); m != nil {
			chanWake()
			mailTag(m)
			v, _ := m.v.(T)
			return v, true
		}
		chanPark(id)
	}
}

// Recv1 is `<-ch` as an expression.
func Recv1[T any](ch <-chan T) T {
	v, _ := Recv(ch)
	return v
}

// Send is `ch <- v`.
func Send[T any](ch chan<- T, v T) {
	s := S
	if s == nil || s.cur == nil {
		ch <- v
		return
	}
	syncPoint(s, -1)
	if cap(ch) > 0 {
		for {
			select {
			case ch <- v:
				chanTagPush(*(*unsafe.Pointer)(unsafe.Pointer(&ch)))
				chanWake()
				return
			default:
			}
			chanPark(nil)
		}
	}
	m := mailPut(*(*unsafe.Pointer)(unsafe.Pointer(&ch)), v)
	m.tag = s.cur.Tag
	s.tagAcquire(m.tag)
	chanWake()
	for !mailTaken(m) {
		chanPark(nil)
	}
}

//go:norace
func mailTaken(m *mail) bool { return m.taken }

// mailTag hands the reference of a rendezvous value to its receiver.
//
//go:norace
func mailTag(m *mail) {
	s := S
	if s == nil || s.cur == nil || m.tag == 0 {
		return
	}
	s.setTag(s.cur, m.tag, true)
	s.cur.jobChan = m.id
	if s.cur.Kind == "task" || s.cur.Kind == "bg" {
		s.cur.Kind = "handler"
	}
}

// Close is close(ch).
func Close[T any](ch chan<- T) {
	close(ch)
	chanWake()
}

func chanID[T any](ch <-chan T) unsafe.Pointer {
	return *(*unsafe.Pointer)(unsafe.Pointer(&ch))
}

//go:norace
func chanPark(id unsafe.Pointer) {
	s := S
	Probe(PChanRecvBlocked)
	t := s.cur
	t.State = StBlockedChan
	t.waitObj = id
	s.toSched(t)
	t.waitObj = nil
}

// chanWake makes every channel-blocked task runnable again (they re-poll).
//
//go:norace
func chanWake() {
	s := S
	if s == nil {
		return
	}
	for _, t := range s.tasks {
		if t.State == StBlockedChan {
			t.State = StRunnable
		}
	}
}

// ChanWake is chanWake for the scheduler side (after it put something in a channel).
//
//go:norace
func (s *Sim) ChanWake() {
	for _, t := range s.tasks {
		if t.State == StBlockedChan {
			t.State = StRunnable
		}
	}
}

// ResetGlobals clears per-process registries between simulations in one process.
//
//go:norace
func ResetGlobals() {
	lockRegistry = nil
	clockReads = nil
	crashPending = nil
	mailbox = nil
	chanTags = nil
	simTimers = nil
}

var globalSeq int64

// NextSeq returns the next value of a global event sequence number (history stamps).
//
//go:norace
func NextSeq() int64 {
	globalSeq++
	return globalSeq
}

// UserRec is a record logged by harness code running in task context (plugin wrappers, synthetic plugins).
type UserRec struct {
	Task int
	Tag  int64
	Inc  int
	Step int64
	Now  int64
	Rec  any
}

// UserLog appends a record to the run's user log from task context; the scheduler-side world reads it with TakeUserLog.
//
//go:norace
func UserLog(rec any) {
	s := S
	if s == nil {
		return
	}
	r := UserRec{Step: s.Steps, Now: s.now, Rec: rec}
	if t := s.cur; t != nil {
		r.Task = t.ID
		r.Tag = t.Tag
		r.Inc = t.Inc
	}
	s.userLog = append(s.userLog, r)
}

//go:norace
func (s *Sim) TakeUserLog() []UserRec {
	r := s.userLog
	s.userLog = nil
	return r
}

// CurTaskID returns the id of the running task (0 on the scheduler goroutine or in passthrough mode).
//
//go:norace
func CurTaskID() int {
	if s := S; s != nil && s.cur != nil {
		return s.cur.ID
	}
	return 0
}

// CurTag returns the datagram id attributed to the running task.
//
//go:norace
func CurTag() int64 {
	if s := S; s != nil && s.cur != nil {
		return s.cur.Tag
	}
	return 0
}
