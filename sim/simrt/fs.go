package simrt

import (
	"errors"
	"os"
	"syscall"
	"time"

	"github.com/fsnotify/fsnotify"
)

// In-memory file system for the files the operator edits (lease files) and a
// model of inotify + fsnotify v1.8.0 for single watched files (calibrated
// against the real library by `check selftest-fsnotify`).

type inode struct {
	id    int
	data  []byte
	nlink int
	mtime int64 // simulated ns of the last modification
}

type simFile struct {
	path string
	ino  *inode
}

// ReadFileRec logs one ReadFile by instrumented code: what the plugin actually saw.
type ReadFileRec struct {
	Task int
	Inc  int
	Path string
	Data []byte
	Err  string
	Step int64
	Now  int64
}

type watch struct {
	ino  *inode
	path string
	dir  bool // watch on a directory: events of every entry, the watch survives replacement of the entries
}

// Watcher replaces fsnotify.Watcher.
type Watcher struct {
	Events    chan fsnotify.Event
	Errors    chan error
	inc       int
	dead      bool
	id        int
	watches   []watch
	queue     []fsnotify.Event // kernel queue + fsnotify's read buffer
	errSent   bool             // fsnotify's reader goroutine is in sendError: it delivers nothing until Errors is read
	maxQ      int
	closed    bool
	real      *fsnotify.Watcher
	Delivered int
}

var nextIno int

//go:norace
func (s *Sim) lookup(path string) *simFile {
	for _, f := range s.files {
		if f.path == path {
			return f
		}
	}
	return nil
}

// FSHas reports whether path is a simulated file.
//
//go:norace
func (s *Sim) FSHas(path string) bool { return s.lookup(path) != nil }

//go:norace
func (s *Sim) FSData(path string) ([]byte, bool) {
	f := s.lookup(path)
	if f == nil {
		return nil, false
	}
	return rawCopy(f.ino.data), true
}

//go:norace
func (s *Sim) push(ino *inode, op fsnotify.Op, removeWatch bool) {
	for _, w := range s.watchers {
		if w.dead || w.closed {
			continue
		}
		for i := 0; i < len(w.watches); i++ {
			if w.watches[i].dir || w.watches[i].ino != ino {
				continue
			}
			s.enqueue(w, fsnotify.Event{Name: w.watches[i].path, Op: op})
			if removeWatch {
				for zz := i; zz+1 < len(w.watches); zz++ {
					w.watches[zz] = w.watches[zz+1]
				}
				w.watches = w.watches[:len(w.watches)-1]
				i--
				Probe(PWatchLost)
			}
		}
		s.ChanWake()
	}
}

// pushDir queues an event for every watcher of the directory that contains path (calibrated against fsnotify
// v1.8.0: the event name is the entry's path; the directory watch is never lost).
//
//go:norace
func (s *Sim) pushDir(path string, op fsnotify.Op) {
	dir := dirOf(path)
	for _, w := range s.watchers {
		if w.dead || w.closed {
			continue
		}
		for i := range w.watches {
			if !w.watches[i].dir || w.watches[i].path != dir {
				continue
			}
			s.enqueue(w, fsnotify.Event{Name: path, Op: op})
		}
		s.ChanWake()
	}
}

// overflowMark stands for IN_Q_OVERFLOW in the kernel queue.
var overflowMark = fsnotify.Event{Name: "\x00IN_Q_OVERFLOW"}

// enqueue models the kernel side of inotify: an event identical to the unread tail is merged; when the queue is
// full (fs.inotify.max_queued_events) one overflow record is queued and events are dropped until there is room.
//
//go:norace
func (s *Sim) enqueue(w *Watcher, ev fsnotify.Event) {
	n := len(w.queue)
	switch {
	case n > 0 && w.queue[n-1] == ev && s.Tape.Draw(2) == 1:
		s.FaultsFired[FEvCoalesce]++
	case n >= w.maxQ:
		if w.queue[n-1] != overflowMark {
			w.queue = append(w.queue, overflowMark)
			s.FaultsFired[FEvOverflow]++
			Probe(PInotifyOverflow)
		}
	default:
		w.queue = append(w.queue, ev)
	}
}

//go:norace
func dirOf(path string) string {
	for i := len(path) - 1; i > 0; i-- {
		if path[i] == '/' {
			return path[:i]
		}
	}
	if len(path) > 0 && path[0] == '/' {
		return "/"
	}
	return "."
}

// FSRegisterDir marks a path as a simulated directory (it can be watched).
//
//go:norace
func (s *Sim) FSRegisterDir(path string) { s.simDirs = append(s.simDirs, path) }

// FSCreateEvent creates a file and reports it to directory watchers (create(2) + write(2)).
//
//go:norace
func (s *Sim) FSCreateEvent(path string, data []byte) {
	s.FSCreate(path, data)
	s.pushDir(path, fsnotify.Create)
	if len(data) > 0 {
		s.pushDir(path, fsnotify.Write)
	}
}

// FSCreate creates (or replaces the content of) a file without events (initial state).
//
//go:norace
func (s *Sim) FSCreate(path string, data []byte) {
	if f := s.lookup(path); f != nil {
		f.ino.data = rawCopy(data)
		return
	}
	nextIno++
	s.files = append(s.files, &simFile{path: path, ino: &inode{id: nextIno, data: rawCopy(data), nlink: 1, mtime: s.now}})
}

// FSTruncate is open(O_TRUNC) on an existing file.
//
//go:norace
func (s *Sim) FSTruncate(path string) {
	f := s.lookup(path)
	if f == nil {
		s.FSCreate(path, nil)
		return
	}
	f.ino.data = f.ino.data[:0]
	f.ino.mtime = s.now
	s.push(f.ino, fsnotify.Write, false)
	s.pushDir(path, fsnotify.Write)
}

// FSAppend is one write(2) at the end of the file.
//
//go:norace
func (s *Sim) FSAppend(path string, chunk []byte) {
	f := s.lookup(path)
	if f == nil {
		return
	}
	f.ino.data = rawAppend(f.ino.data, chunk)
	f.ino.mtime = s.now
	s.push(f.ino, fsnotify.Write, false)
	s.pushDir(path, fsnotify.Write)
}

// FSChmod is chmod(2).
//
//go:norace
func (s *Sim) FSChmod(path string) {
	if f := s.lookup(path); f != nil {
		s.push(f.ino, fsnotify.Chmod, false)
		s.pushDir(path, fsnotify.Chmod)
	}
}

// FSRenameOver atomically replaces path with a new file holding data (write temp + rename(2)).
//
//go:norace
func (s *Sim) FSRenameOver(path string, data []byte) {
	f := s.lookup(path)
	nextIno++
	n := &inode{id: nextIno, data: rawCopy(data), nlink: 1, mtime: s.now}
	if s.KeepMtime {
		// cp -p / rsync -t: the new file carries the old modification time
		if f != nil {
			n.mtime = f.ino.mtime
		}
	}
	if f == nil {
		s.files = append(s.files, &simFile{path: path, ino: n})
		s.pushDir(path, fsnotify.Create)
		return
	}
	old := f.ino
	f.ino = n
	old.nlink--
	// the replaced inode: IN_ATTRIB (link count), IN_DELETE_SELF, IN_IGNORED
	s.push(old, fsnotify.Chmod, false)
	s.push(old, fsnotify.Remove, true)
	// directory watchers see the temporary file appear and move onto the name (IN_MOVED_TO -> Create)
	s.pushDir(path+".tmp", fsnotify.Create)
	s.pushDir(path+".tmp", fsnotify.Write)
	s.pushDir(path+".tmp", fsnotify.Rename)
	s.pushDir(path, fsnotify.Create)
}

// FSUnlink is unlink(2).
//
//go:norace
func (s *Sim) FSUnlink(path string) {
	for i, f := range s.files {
		if f.path == path {
			for zz := i; zz+1 < len(s.files); zz++ {
				s.files[zz] = s.files[zz+1]
			}
			s.files = s.files[:len(s.files)-1]
			f.ino.nlink--
			s.push(f.ino, fsnotify.Chmod, false)
			s.push(f.ino, fsnotify.Remove, true)
			s.pushDir(path, fsnotify.Remove)
			return
		}
	}
}

// FSRenameAway moves path to another name (the watched inode lives on under the new name).
//
//go:norace
func (s *Sim) FSRenameAway(path, to string) {
	f := s.lookup(path)
	if f == nil {
		return
	}
	f.path = to
	s.push(f.ino, fsnotify.Rename, true)
	s.pushDir(path, fsnotify.Rename)
	s.pushDir(to, fsnotify.Create)
}

// ArmReadFileErr makes the n-th ReadFile from now fail with EIO.
//
//go:norace
func (s *Sim) ArmReadFileErr(n int) { s.readFileErrIn = n }

// ReadFile replaces os.ReadFile.
//
//go:norace
func ReadFile(name string) ([]byte, error) {
	s := S
	if s == nil {
		return os.ReadFile(name)
	}
	data, err := simRead(name, "open")
	if err == errNotSim {
		return os.ReadFile(name)
	}
	return data, err
}

// FSRegisterPath marks a path as simulated even while no file exists there.
//
//go:norace
func (s *Sim) FSRegisterPath(path string) { s.simPaths = append(s.simPaths, path) }

// NewWatcher replaces fsnotify.NewWatcher.
//
//go:norace
func NewWatcher() (*Watcher, error) {
	s := S
	if s == nil {
		rw, err := fsnotify.NewWatcher()
		if err != nil {
			return nil, err
		}
		return &Watcher{Events: rw.Events, Errors: rw.Errors, real: rw}, nil
	}
	w := &Watcher{Events: make(chan fsnotify.Event, 1), Errors: make(chan error, 1), id: len(s.watchers), maxQ: s.InotifyQueueMax}
	if w.maxQ <= 0 {
		w.maxQ = 16384
	}
	if s.cur != nil {
		w.inc = s.cur.Inc
	} else {
		w.inc = s.Inc
	}
	s.watchers = append(s.watchers, w)
	return w, nil
}

// NewBufferedWatcher replaces fsnotify.NewBufferedWatcher.
//
//go:norace
func NewBufferedWatcher(sz uint) (*Watcher, error) { return NewWatcher() }

//go:norace
func (w *Watcher) Add(name string) error {
	if w.real != nil {
		return w.real.Add(name)
	}
	s := S
	if w.closed {
		return fsnotify.ErrClosed
	}
	for _, d := range s.simDirs {
		if d == name || d == cleanPath(name) {
			for _, x := range w.watches {
				if x.dir && x.path == d {
					return nil
				}
			}
			w.watches = append(w.watches, watch{path: d, dir: true})
			return nil
		}
	}
	f := s.lookup(name)
	if f == nil {
		return &os.PathError{Op: "inotify_add_watch", Path: name, Err: syscall.ENOENT}
	}
	for _, x := range w.watches {
		if x.ino == f.ino {
			return nil
		}
	}
	w.watches = append(w.watches, watch{ino: f.ino, path: name})
	return nil
}

//go:norace
func cleanPath(p string) string {
	for len(p) > 1 && p[len(p)-1] == '/' {
		p = p[:len(p)-1]
	}
	return p
}

//go:norace
func (w *Watcher) Remove(name string) error {
	if w.real != nil {
		return w.real.Remove(name)
	}
	for i, x := range w.watches {
		if x.path == name {
			for zz := i; zz+1 < len(w.watches); zz++ {
				w.watches[zz] = w.watches[zz+1]
			}
			w.watches = w.watches[:len(w.watches)-1]
			return nil
		}
	}
	return fsnotify.ErrNonExistentWatch
}

//go:norace
func (w *Watcher) Close() error {
	if w.real != nil {
		return w.real.Close()
	}
	if !w.closed {
		w.closed = true
		close(w.Events)
		close(w.Errors)
		chanWake()
	}
	return nil
}

//go:norace
func (w *Watcher) WatchList() []string {
	if w.real != nil {
		return w.real.WatchList()
	}
	var r []string
	for _, x := range w.watches {
		r = append(r, x.path)
	}
	return r
}

// pump plays fsnotify's reader goroutine for the task about to receive on an
// Events channel: it moves the next queued event into the channel. Doing this
// in the receiving task's own context keeps the scheduler free of
// happens-before edges towards tasks.
//
//go:norace
func pumpWatchers() {
	s := S
	if s == nil {
		return
	}
	for _, w := range s.watchers {
		if w.dead || w.closed {
			continue
		}
		if w.errSent {
			// the real Errors channel is unbuffered: sendError returns only when somebody has received the error. The
			// model's channel has room for one, and the reader goroutine counts as blocked until it is empty again.
			if len(w.Errors) > 0 {
				continue
			}
			w.errSent = false
		}
		if len(w.queue) == 0 {
			continue
		}
		if w.queue[0] == overflowMark {
			w.queue = w.queue[1:]
			w.errSent = true
			w.Errors <- fsnotify.ErrEventOverflow
			continue
		}
		if len(w.Events) == 0 {
			ev := w.queue[0]
			w.queue = w.queue[1:]
			w.Delivered++
			w.Events <- ev
		}
	}
}

// DrainForCalibration plays the consumer of a simulated watcher outside a task (calibration self-test only): it
// receives from Events, and from Errors when readErrors is set, until nothing moves any more.
//
//go:norace
func (w *Watcher) DrainForCalibration(readErrors bool) (events int, errs []error) {
	for {
		pumpWatchers()
		moved := false
		select {
		case <-w.Events:
			events++
			moved = true
		default:
		}
		if readErrors {
			select {
			case e := <-w.Errors:
				errs = append(errs, e)
				moved = true
			default:
			}
		}
		if !moved {
			return
		}
	}
}

// WatcherStats describes a simulated watcher (scheduler context).
type WatcherStats struct {
	Inc       int
	Watches   int
	Queued    int
	Stuck     bool
	Delivered int
	Dead      bool
}

//go:norace
func (s *Sim) WatcherStats() []WatcherStats {
	var r []WatcherStats
	for _, w := range s.watchers {
		r = append(r, WatcherStats{Inc: w.inc, Watches: len(w.watches), Queued: len(w.queue) + len(w.Events), Stuck: w.errSent && len(w.Errors) > 0, Delivered: w.Delivered, Dead: w.dead})
	}
	return r
}

var _ = errors.New

// QueuedEvents returns the events waiting for the consumer of a simulated watcher (calibration self-test).
//
//go:norace
func (w *Watcher) QueuedEvents() []fsnotify.Event {
	return append([]fsnotify.Event(nil), w.queue...)
}

// Open replaces os.Open: a simulated file is materialised as an unlinked real file holding the content at
// this instant (so bufio.Scanner, io.ReadAll, ReadAt ... work); everything else is opened for real.
//
//go:norace
func Open(name string) (*os.File, error) {
	s := S
	if s == nil {
		return os.Open(name)
	}
	data, err := simRead(name, "open")
	if err == errNotSim {
		return os.Open(name)
	}
	if err != nil {
		return nil, err
	}
	f, err := os.CreateTemp("/dev/shm", "verif-open-")
	if err != nil {
		return nil, err
	}
	os.Remove(f.Name())
	if _, err := f.Write(data); err != nil {
		f.Close()
		return nil, err
	}
	if _, err := f.Seek(0, 0); err != nil {
		f.Close()
		return nil, err
	}
	return f, nil
}

// OpenFile replaces os.OpenFile for read-only opens of simulated files.
//
//go:norace
func OpenFile(name string, flag int, perm os.FileMode) (*os.File, error) {
	s := S
	if s == nil || flag&(os.O_WRONLY|os.O_RDWR|os.O_CREATE|os.O_TRUNC|os.O_APPEND) != 0 || !s.isSimPath(name) {
		return os.OpenFile(name, flag, perm)
	}
	return Open(name)
}

var errNotSim = errors.New("not a simulated path")

//go:norace
func (s *Sim) isSimPath(name string) bool {
	if s.lookup(name) != nil {
		return true
	}
	for _, p := range s.simPaths {
		if p == name {
			return true
		}
	}
	return false
}

// simRead is the common read path of ReadFile and Open: content at this instant, injected errors, the read log.
//
//go:norace
func simRead(name, op string) ([]byte, error) {
	s := S
	if !s.isSimPath(name) {
		return nil, errNotSim
	}
	f := s.lookup(name)
	rec := ReadFileRec{Path: name, Step: s.Steps, Now: s.now}
	if s.cur != nil {
		rec.Task = s.cur.ID
		rec.Inc = s.cur.Inc
	}
	var data []byte
	var err error
	if s.readFileErrIn > 0 {
		s.readFileErrIn--
		if s.readFileErrIn == 0 {
			s.FaultsFired[FReadFileErr]++
			err = &os.PathError{Op: "read", Path: name, Err: syscall.EIO}
		}
	}
	if err == nil {
		if f == nil {
			err = &os.PathError{Op: op, Path: name, Err: syscall.ENOENT}
		} else {
			data = rawCopy(f.ino.data)
		}
	}
	if err != nil {
		rec.Err = err.Error()
	} else {
		rec.Data = rawCopy(data)
	}
	s.ReadFileLog = append(s.ReadFileLog, rec)
	if s.cur != nil {
		s.Tracef("readfile", s.cur.ID, "path=%s len=%d err=%v", name, len(data), err)
		syncPoint(s, -1)
	}
	return data, err
}

type simFileInfo struct {
	name  string
	size  int64
	mtime time.Time
}

//go:norace
func (i simFileInfo) Name() string { return i.name }

//go:norace
func (i simFileInfo) Size() int64 { return i.size }

//go:norace
func (i simFileInfo) Mode() os.FileMode { return 0o644 }

//go:norace
func (i simFileInfo) ModTime() time.Time { return i.mtime }

//go:norace
func (i simFileInfo) IsDir() bool { return false }

//go:norace
func (i simFileInfo) Sys() any { return nil }

// Stat replaces os.Stat / os.Lstat.
//
//go:norace
func Stat(name string) (os.FileInfo, error) {
	s := S
	if s == nil || !s.isSimPath(name) {
		return os.Stat(name)
	}
	f := s.lookup(name)
	if f == nil {
		return nil, &os.PathError{Op: "stat", Path: name, Err: syscall.ENOENT}
	}
	base := name
	for i := len(name) - 1; i >= 0; i-- {
		if name[i] == '/' {
			base = name[i+1:]
			break
		}
	}
	return simFileInfo{name: base, size: int64(len(f.ino.data)), mtime: time.Unix(0, s.Cfg.EpochNs+f.ino.mtime).UTC()}, nil
}
