package simrt

type simFile struct{}

type Watcher struct {
	inc  int
	dead bool
}

type trackedDB struct{}

type ReadFileRec struct{}

//go:norace
func (s *Sim) closeDBs(inc int) {}
