#!/bin/sh
set -e
cd "$(dirname "$0")"
export GOFLAGS=-mod=mod GOPROXY=off GOSUMDB=off GOTOOLCHAIN=local
echo "setup: placeholder"
