#!/bin/sh
# Builds the verification machinery from files on disk only (offline).
set -e
cd "$(dirname "$0")"
export GOFLAGS=-mod=mod GOPROXY=off GOSUMDB=off GOTOOLCHAIN=local
mkdir -p bin .cache evidence replays
(cd simbuild && go build -o ../bin/simbuild .)
(cd checker && go build -o ../bin/check .)
# instrument the current tree and build simrun (plain and -race); warms the Go build cache
./bin/check build --race
# machinery self-test: the repository's own tests must pass on the instrumented copy
./bin/check selftest-preservation
./bin/check selftest-race
./bin/check selftest-fsnotify || echo "setup: warning: fsnotify calibration could not be confirmed here (inotify unavailable?)"
echo "setup: ok"
